/-
M6 (part 1) — the STATE birth/death certificate as JSON.

Writers (srad):
* `impl From<StatePayload> for Vec<u8>` (srad-client/src/types.rs): hand-written
  `{"online" : true, "timestamp" : 123}` — this is what a host application publishes and what
  `LastWill::new_app` registers;
* `impl TryFrom<StateBirthDeathCertificate> for Vec<u8>` (srad-types/src/payload.rs):
  `serde_json::to_vec` of `struct { timestamp: u64, online: bool }` = `{"timestamp":123,"online":true}`.

Reader: `StateBirthDeathCertificate::try_from(&[u8])` = `serde_json::from_slice` with serde's
derived `Deserialize`. serde_json is an external library; the reader below is a transcription
of the code paths of serde_json 1.0.141 (`de.rs`, `read.rs`, `SliceRead`) that this struct
reaches, function by function (names in the doc comments), so that it can be compared with the
real library on arbitrary bytes:
  deserialize_struct → `[` visit_seq (timestamp, online) | `{` visit_map (keys in any order,
  unknown keys skipped by `ignore_value`, duplicate / missing key = error) → end_seq/end_map →
  `Deserializer::end` (only whitespace may follow).
Any error anywhere aborts the whole parse, so only success/failure and the two values matter:
the result is `Option (online, timestamp)`.

Loops that do not recurse structurally take `fuel`; every iteration consumes input, the entry
point supplies more fuel than the input has bytes.
No imports: linked into `srad_model`.
-/
namespace Srad.StateJson

abbrev Bytes := List UInt8

/-! ### writers -/

/-- Rust `Display` for `u64`: decimal, no sign, no leading zeros -/
def decDigits (n : Nat) : Bytes :=
  if n < 10 then [UInt8.ofNat (48 + n)]
  else decDigits (n / 10) ++ [UInt8.ofNat (48 + n % 10)]
termination_by n
decreasing_by omega

def TRUE_ : Bytes := [0x74, 0x72, 0x75, 0x65]
def FALSE_ : Bytes := [0x66, 0x61, 0x6c, 0x73, 0x65]
def boolBytes (b : Bool) : Bytes := if b then TRUE_ else FALSE_

/-- `format!("{{\"online\" : true, \"timestamp\" : {timestamp}}}")` / `… false …` -/
def printCert (online : Bool) (ts : Nat) : Bytes :=
  [0x7b, 0x22, 0x6f, 0x6e, 0x6c, 0x69, 0x6e, 0x65, 0x22, 0x20, 0x3a, 0x20] ++ boolBytes online ++
  [0x2c, 0x20, 0x22, 0x74, 0x69, 0x6d, 0x65, 0x73, 0x74, 0x61, 0x6d, 0x70, 0x22, 0x20, 0x3a, 0x20] ++
  decDigits ts ++ [0x7d]

/-- `serde_json::to_vec(&StateBirthDeathCertificate { timestamp, online })` -/
def printCertSerde (online : Bool) (ts : Nat) : Bytes :=
  [0x7b, 0x22, 0x74, 0x69, 0x6d, 0x65, 0x73, 0x74, 0x61, 0x6d, 0x70, 0x22, 0x3a] ++ decDigits ts ++
  [0x2c, 0x22, 0x6f, 0x6e, 0x6c, 0x69, 0x6e, 0x65, 0x22, 0x3a] ++ boolBytes online ++ [0x7d]

/-! ### reader: lexical helpers -/

/-- `parse_whitespace`: space, `\n`, `\t`, `\r` -/
def isWs (c : UInt8) : Bool := c == 0x20 || c == 0x0a || c == 0x09 || c == 0x0d

def skipWs : Bytes → Bytes
  | [] => []
  | c :: t => if isWs c then skipWs t else c :: t

def isDigit (c : UInt8) : Bool := 48 ≤ c.toNat && c.toNat ≤ 57

def dropDigits : Bytes → Bytes
  | [] => []
  | c :: t => if isDigit c then dropDigits t else c :: t

/-- `parse_ident`: the given bytes must follow literally -/
def parseIdent : Bytes → Bytes → Option Bytes
  | [], bs => some bs
  | _ :: _, [] => none
  | e :: es, c :: t => if c = e then parseIdent es t else none

/-- `decode_hex_val_slow` -/
def hexVal (c : UInt8) : Option Nat :=
  let n := c.toNat
  if 48 ≤ n ∧ n ≤ 57 then some (n - 48)
  else if 65 ≤ n ∧ n ≤ 70 then some (n - 55)
  else if 97 ≤ n ∧ n ≤ 102 then some (n - 87)
  else none

/-- `decode_hex_escape`: exactly four hex digits must be available -/
def hex4 : Bytes → Option (Nat × Bytes)
  | a :: b :: c :: d :: t =>
    match hexVal a, hexVal b, hexVal c, hexVal d with
    | some x, some y, some z, some w => some (x * 4096 + y * 256 + z * 16 + w, t)
    | _, _, _, _ => none
  | _ => none

/-- `push_wtf8_codepoint` -/
def pushCodepoint (n : Nat) : Bytes :=
  if n < 0x80 then [UInt8.ofNat n]
  else if n < 0x800 then [UInt8.ofNat (n / 64 % 32 + 0xC0), UInt8.ofNat (n % 64 + 0x80)]
  else if n < 0x10000 then
    [UInt8.ofNat (n / 4096 % 16 + 0xE0), UInt8.ofNat (n / 64 % 64 + 0x80), UInt8.ofNat (n % 64 + 0x80)]
  else
    [UInt8.ofNat (n / 262144 % 8 + 0xF0), UInt8.ofNat (n / 4096 % 64 + 0x80),
     UInt8.ofNat (n / 64 % 64 + 0x80), UInt8.ofNat (n % 64 + 0x80)]

/-! ### strings -/

/-- `parse_unicode_escape` with `validate = true` (after `\u`): lone or unpaired surrogates
are errors; `acc` is the scratch buffer, reversed -/
def parseUnicodeEscape (acc : Bytes) (bs : Bytes) : Option (Bytes × Bytes) :=
  match hex4 bs with
  | none => none
  | some (n, t) =>
    if 0xDC00 ≤ n ∧ n ≤ 0xDFFF then none
    else if n < 0xD800 ∨ n > 0xDBFF then some ((pushCodepoint n).reverse ++ acc, t)
    else
      match t with
      | b1 :: b2 :: t2 =>
        if b1 = 0x5c ∧ b2 = 0x75 then
          match hex4 t2 with
          | none => none
          | some (n2, t3) =>
            if n2 < 0xDC00 ∨ n2 > 0xDFFF then none
            else some ((pushCodepoint ((n - 0xD800) * 1024 + (n2 - 0xDC00) + 0x10000)).reverse ++ acc, t3)
        else none
      | _ => none

/-- `parse_escape` (after the backslash) -/
def parseEscape (acc : Bytes) : Bytes → Option (Bytes × Bytes)
  | [] => none
  | c :: t =>
    if c = 0x22 then some (0x22 :: acc, t)
    else if c = 0x5c then some (0x5c :: acc, t)
    else if c = 0x2f then some (0x2f :: acc, t)
    else if c = 0x62 then some (0x08 :: acc, t)
    else if c = 0x66 then some (0x0c :: acc, t)
    else if c = 0x6e then some (0x0a :: acc, t)
    else if c = 0x72 then some (0x0d :: acc, t)
    else if c = 0x74 then some (0x09 :: acc, t)
    else if c = 0x75 then parseUnicodeEscape acc t
    else none

/-- `SliceRead::parse_str` (after the opening quote): the decoded bytes must be valid UTF-8
(`as_str`); control characters are errors. Returns the decoded key and the rest. -/
def parseStrLoop (valid : Bytes → Bool) : Nat → Bytes → Bytes → Option (Bytes × Bytes)
  | 0, _, _ => none
  | _ + 1, _, [] => none
  | fuel + 1, acc, c :: t =>
    if c = 0x22 then (if valid acc.reverse then some (acc.reverse, t) else none)
    else if c = 0x5c then
      match parseEscape acc t with
      | none => none
      | some (acc', t') => parseStrLoop valid fuel acc' t'
    else if c.toNat < 0x20 then none
    else parseStrLoop valid fuel (c :: acc) t

/-- `ignore_escape` -/
def ignoreEscape : Bytes → Option Bytes
  | [] => none
  | c :: t =>
    if c = 0x22 ∨ c = 0x5c ∨ c = 0x2f ∨ c = 0x62 ∨ c = 0x66 ∨ c = 0x6e ∨ c = 0x72 ∨ c = 0x74 then some t
    else if c = 0x75 then (hex4 t).map (·.2)
    else none

/-- `SliceRead::ignore_str` (after the opening quote): no UTF-8 validation, no surrogate rules -/
def ignoreStrLoop : Nat → Bytes → Option Bytes
  | 0, _ => none
  | _ + 1, [] => none
  | fuel + 1, c :: t =>
    if c = 0x22 then some t
    else if c = 0x5c then
      match ignoreEscape t with
      | none => none
      | some t' => ignoreStrLoop fuel t'
    else if c.toNat < 0x20 then none
    else ignoreStrLoop fuel t

/-! ### numbers -/

def U64MAX : Nat := 18446744073709551615

/-- the `overflow!` macro: `sig * 10 + d` would exceed `u64::MAX` -/
def overflows (sig d : Nat) : Bool :=
  decide (sig ≥ U64MAX / 10) && (decide (sig > U64MAX / 10) || decide (d > U64MAX % 10))

/-- the digit loop of `parse_integer`; an overflow switches serde_json to `f64`, which the
`u64` visitor rejects -/
def accDigits (sig : Nat) : Bytes → Option (Nat × Bytes)
  | [] => some (sig, [])
  | c :: t =>
    if isDigit c then
      if overflows sig (c.toNat - 48) then none else accDigits (sig * 10 + (c.toNat - 48)) t
    else some (sig, c :: t)

/-- `parse_number` (positive): a fraction or an exponent makes the number an `f64` (or an
error), which the `u64` visitor rejects -/
def parseNumberTail (sig : Nat) (bs : Bytes) : Option (Nat × Bytes) :=
  match bs with
  | [] => some (sig, [])
  | c :: t => if c = 0x2e ∨ c = 0x65 ∨ c = 0x45 then none else some (sig, c :: t)

/-- `deserialize_number` with serde's `u64` visitor: an unsigned integer literal in range.
A minus sign yields `I64`/`F64` or an error: never a `u64`. -/
def parseU64 (bs : Bytes) : Option (Nat × Bytes) :=
  match skipWs bs with
  | [] => none
  | c :: t =>
    if c = 0x30 then
      match t with
      | [] => parseNumberTail 0 []
      | d :: t' => if isDigit d then none else parseNumberTail 0 (d :: t')
    else if isDigit c then
      match accDigits (c.toNat - 48) t with
      | none => none
      | some (sig, rest) => parseNumberTail sig rest
    else none

/-- `deserialize_bool` -/
def parseBool (bs : Bytes) : Option (Bool × Bytes) :=
  match skipWs bs with
  | [] => none
  | c :: t =>
    if c = 0x74 then (parseIdent [0x72, 0x75, 0x65] t).map (fun r => (true, r))
    else if c = 0x66 then (parseIdent [0x61, 0x6c, 0x73, 0x65] t).map (fun r => (false, r))
    else none

/-- `ignore_exponent` (positioned at the `e`) -/
def ignoreExponent : Bytes → Option Bytes
  | [] => none
  | _ :: t =>
    let t1 := match t with
      | s :: t' => if s = 0x2b ∨ s = 0x2d then t' else s :: t'
      | [] => []
    match t1 with
    | d :: t2 => if isDigit d then some (dropDigits t2) else none
    | [] => none

/-- `ignore_decimal` (positioned at the `.`) -/
def ignoreDecimal : Bytes → Option Bytes
  | [] => none
  | _ :: t =>
    match t with
    | d :: t' =>
      if isDigit d then
        match dropDigits t' with
        | e :: r => if e = 0x65 ∨ e = 0x45 then ignoreExponent (e :: r) else some (e :: r)
        | [] => some []
      else none
    | [] => none

/-- `ignore_integer` (after an optional minus) -/
def ignoreInteger : Bytes → Option Bytes
  | [] => none
  | c :: t =>
    let afterInt : Option Bytes :=
      if c = 0x30 then
        match t with
        | d :: _ => if isDigit d then none else some t
        | [] => some t
      else if isDigit c then some (dropDigits t)
      else none
    match afterInt with
    | none => none
    | some r =>
      match r with
      | x :: r' =>
        if x = 0x2e then ignoreDecimal (x :: r')
        else if x = 0x65 ∨ x = 0x45 then ignoreExponent (x :: r')
        else some (x :: r')
      | [] => some []

/-! ### `ignore_value`: skipping the value of an unknown key -/

inductive Frame where
  | arr | obj
  deriving DecidableEq, Repr

/-- position inside `ignore_value`'s two nested loops -/
inductive Mode where
  | value                                  -- top of the outer loop: a value is expected
  | after (acceptComma : Bool) (f : Frame) -- inner loop: after a value or an opening bracket
  deriving Repr

/-- `ignore_value`. serde_json keeps the innermost open bracket in `enclosing` and the others
on `scratch`; here both are one stack (head = innermost). Iterative in the Rust as well: no
recursion limit applies. -/
def ignoreGo : Nat → Mode → List Frame → Bytes → Option Bytes
  | 0, _, _, _ => none
  | fuel + 1, .value, stack, bs =>
    match skipWs bs with
    | [] => none
    | c :: t =>
      -- a scalar: consume it, then continue after the value in the enclosing bracket
      let scalar (r : Option Bytes) : Option Bytes :=
        match r with
        | none => none
        | some rest =>
          match stack with
          | [] => some rest
          | f :: st => ignoreGo fuel (.after true f) st rest
      if c = 0x6e then scalar (parseIdent [0x75, 0x6c, 0x6c] t)
      else if c = 0x74 then scalar (parseIdent [0x72, 0x75, 0x65] t)
      else if c = 0x66 then scalar (parseIdent [0x61, 0x6c, 0x73, 0x65] t)
      else if c = 0x2d then scalar (ignoreInteger t)
      else if isDigit c then scalar (ignoreInteger (c :: t))
      else if c = 0x22 then scalar (ignoreStrLoop (t.length + 1) t)
      else if c = 0x5b then ignoreGo fuel (.after false .arr) stack t
      else if c = 0x7b then ignoreGo fuel (.after false .obj) stack t
      else none
  | fuel + 1, .after accept f, stack, bs =>
    match skipWs bs with
    | [] => none
    | c :: t =>
      -- next element of `f`: for an object first its key and colon
      let next (rest : Bytes) : Option Bytes :=
        match f with
        | .arr => ignoreGo fuel .value (f :: stack) rest
        | .obj =>
          match skipWs rest with
          | q :: r =>
            if q = 0x22 then
              match ignoreStrLoop (r.length + 1) r with
              | none => none
              | some r2 =>
                match skipWs r2 with
                | k :: r3 => if k = 0x3a then ignoreGo fuel .value (f :: stack) r3 else none
                | [] => none
            else none
          | [] => none
      if c = 0x2c ∧ accept then next t
      else if (c = 0x5d ∧ f = .arr) ∨ (c = 0x7d ∧ f = .obj) then
        match stack with
        | [] => some t
        | f' :: st => ignoreGo fuel (.after true f') st t
      else if accept then none
      else next (c :: t)

def ignoreValue (bs : Bytes) : Option Bytes := ignoreGo (2 * bs.length + 2) .value [] bs

/-! ### the struct -/

def TIMESTAMP : Bytes := [0x74, 0x69, 0x6d, 0x65, 0x73, 0x74, 0x61, 0x6d, 0x70]
def ONLINE : Bytes := [0x6f, 0x6e, 0x6c, 0x69, 0x6e, 0x65]

/-- serde's derived field identifier (`visit_str`) -/
inductive Field where
  | timestamp | online | ignore
  deriving DecidableEq, Repr

def fieldOf (key : Bytes) : Field :=
  if key = TIMESTAMP then .timestamp else if key = ONLINE then .online else .ignore

/-- the derived `visit_map` driven by `MapAccess` (`has_next_key`, `MapKey::deserialize_any`,
`parse_object_colon`); stops in front of the closing `}`. `ts`/`on` are the `Option`s the
derived code fills; a second occurrence is `duplicate_field`, an absent one `missing_field`. -/
def mapLoop (valid : Bytes → Bool) : Nat → Bool → Option Nat → Option Bool → Bytes →
    Option ((Nat × Bool) × Bytes)
  | 0, _, _, _, _ => none
  | fuel + 1, first, ts, on, bs =>
    match skipWs bs with
    | [] => none
    | c :: t =>
      if c = 0x7d then
        match ts, on with
        | some a, some b => some ((a, b), c :: t)
        | _, _ => none
      else
        -- `has_next_key`: leaves the reader on the opening quote of the key
        let afterQuote : Option Bytes :=
          if first then (if c = 0x22 then some t else none)
          else if c = 0x2c then
            match skipWs t with
            | q :: t2 => if q = 0x22 then some t2 else none
            | [] => none
          else none
        match afterQuote with
        | none => none
        | some ks =>
          match parseStrLoop valid (ks.length + 1) [] ks with
          | none => none
          | some (key, r) =>
            match skipWs r with
            | [] => none
            | k :: r2 =>
              if k = 0x3a then
                match fieldOf key with
                | .timestamp =>
                  if ts.isSome then none else
                  match parseU64 r2 with
                  | none => none
                  | some (v, r3) => mapLoop valid fuel false (some v) on r3
                | .online =>
                  if on.isSome then none else
                  match parseBool r2 with
                  | none => none
                  | some (v, r3) => mapLoop valid fuel false ts (some v) r3
                | .ignore =>
                  match ignoreValue r2 with
                  | none => none
                  | some r3 => mapLoop valid fuel false ts on r3
              else none

/-- the derived `visit_seq` driven by `SeqAccess` (after `[`): `timestamp` then `online`,
in declaration order; stops in front of what `end_seq` inspects -/
def seqBody (bs : Bytes) : Option ((Nat × Bool) × Bytes) :=
  match skipWs bs with
  | [] => none
  | c :: t =>
    if c = 0x5d then none                        -- invalid_length(0)
    else
      match parseU64 (c :: t) with
      | none => none
      | some (ts, r) =>
        match skipWs r with
        | [] => none
        | c2 :: t2 =>
          if c2 = 0x5d then none                  -- invalid_length(1)
          else if c2 = 0x2c then
            match skipWs t2 with
            | [] => none
            | c3 :: t3 =>
              if c3 = 0x5d then none              -- trailing comma
              else
                match parseBool (c3 :: t3) with
                | none => none
                | some (on, r2) => some ((ts, on), r2)
          else none

/-- `serde_json::from_slice::<StateBirthDeathCertificate>`: `deserialize_struct`, then
`end_seq`/`end_map`, then `Deserializer::end`. Result: `(online, timestamp)`. -/
def parseCert (valid : Bytes → Bool) (bs : Bytes) : Option (Bool × Nat) :=
  match skipWs bs with
  | [] => none
  | c :: t =>
    let body : Option ((Nat × Bool) × Bytes × UInt8) :=
      if c = 0x5b then (seqBody t).map (fun x => (x.1, x.2, 0x5d))
      else if c = 0x7b then (mapLoop valid (t.length + 1) true none none t).map (fun x => (x.1, x.2, 0x7d))
      else none
    match body with
    | none => none
    | some ((ts, on), r, close) =>
      match skipWs r with
      | [] => none
      | e :: r2 =>
        if e = close then (if (skipWs r2).isEmpty then some (on, ts) else none) else none

end Srad.StateJson
