/-
M5 — model of `#[derive(Template)]` (srad-macros/src/lib.rs) and the value traits it leans on
(srad-types/src/template.rs): an INTERPRETER over a schema.

The macro is a program generator: for a struct it emits `template_definition`,
`template_instance`, `TryFrom<TemplateInstance>`, `template_instance_from_difference` and
`update_from_instance`, one `quote!` fragment per field. The model reads those fragments as an
interpreter over the list of fields (`Fields`): every function below is the generated function
for the struct described by its `Fields` argument, with the same order of checks and the same
error constructors.

Conventions (DESIGN.md section 5): scalars are the bit patterns of `Model/Codec.lean`
(`SV`, `STy`, `toProto`, `fromProto` = the `From`/`TryFrom` conversions of value.rs, shared by
the metric and the parameter wrapper); names are byte strings; `PartialEq` on floats is IEEE
(`svEq`); a value whose shape does not fit the schema cannot exist in Rust — the interpreter
answers `TErr.illTyped` / stops there and the theorems assume `wt`.
Imports only `Model/Codec.lean`: linked into `srad_model`.
-/
import SradModel.Model.Codec

namespace Srad.Derive
open Srad.Codec

abbrev Name := Bytes

/-! ### schemas and values -/

/-- the four non-template field kinds: `f: T`, `f: Option<T>`, `#[template(parameter)] f: T`,
`#[template(parameter)] f: Option<T>` with `T` one of the scalar types of value.rs -/
inductive SKind where
  | metric (t : STy)
  | optMetric (t : STy)
  | param (t : STy)
  | optParam (t : STy)
  deriving DecidableEq, Repr

def SKind.ty : SKind → STy
  | .metric t | .optMetric t | .param t | .optParam t => t

def SKind.isParam : SKind → Bool
  | .param _ | .optParam _ => true
  | _ => false

def SKind.isOpt : SKind → Bool
  | .optMetric _ | .optParam _ => true
  | _ => false

/-- a struct value: one cell per field, in declaration order (skipped fields included).
A scalar cell holds `Option SV`; a field of plain type `T` always holds `some _` (see `wt`). -/
inductive Vals where
  | nil
  | s (v : Option SV) (rest : Vals)
  | nest (sub : Vals) (rest : Vals)
  deriving DecidableEq, Repr

/-- the named fields of a struct deriving `Template`, in declaration order.
`wire` is the name after `rename`, `skip` the `#[template(skip)]` flag, `dflt` the value of the
`default = …` expression (or of `Default::default()`); a nested field is a struct that itself
derives `Template`, with its definition metric name `ref`, its version and its own fields. -/
inductive Fields where
  | nil
  | scalar (wire : Name) (skip : Bool) (k : SKind) (dflt : Option SV) (rest : Fields)
  | nested (wire : Name) (skip : Bool) (ref : Name) (ver : Option Name) (sub : Fields)
      (dflt : Vals) (rest : Fields)
  deriving DecidableEq, Repr

/-- a struct deriving `Template` together with its `TemplateMetadata` -/
structure Schema where
  /-- `template_definition_metric_name()` -/
  ref : Name
  /-- `template_version()` -/
  ver : Option Name
  fields : Fields
  deriving DecidableEq, Repr

/-- the provided method `TemplateMetadata::template_definition_metric_name`:
`"name:version"` or `"name"` -/
def defaultRef (name : Name) (ver : Option Name) : Name :=
  match ver with
  | some v => name ++ (0x3a : UInt8) :: v
  | none => name

/-! ### wire form: `payload::Template`, `payload::Metric`, `template::Parameter` -/

/-- `TemplateParameter` -/
structure WP where
  name : Option Name
  ty : Option Nat
  value : Option PV
  deriving DecidableEq, Repr

/-- a list of `TemplateMetric`s. Of a metric only name, datatype and value are modelled (the
generated code reads nothing else). A metric either has no value / a non-template value
(`val`; the `PV.template` marker variant of the codec model is not used here), or a
`TemplateValue` (`templ`: `is_definition`, `template_ref`, `version`, metrics, parameters). -/
inductive WMs where
  | nil
  | val (name : Option Name) (dt : Option Nat) (v : Option PV) (rest : WMs)
  | templ (name : Option Name) (dt : Option Nat) (isDef : Option Bool) (ref : Option Name)
      (ver : Option Name) (sub : WMs) (ps : List WP) (rest : WMs)
  deriving DecidableEq, Repr

def WMs.isEmpty : WMs → Bool
  | .nil => true
  | _ => false

/-- `TemplateInstance` -/
structure TInst where
  ref : Name
  ver : Option Name
  metrics : WMs
  params : List WP
  deriving DecidableEq, Repr

/-- `TemplateDefinition` -/
structure TDef where
  ver : Option Name
  metrics : WMs
  params : List WP
  deriving DecidableEq, Repr

/-- `TemplateError` (+ `illTyped`: the value does not have the shape of the struct; not a Rust
outcome) -/
inductive TErr where
  | invalidPayload
  | unknownParameter (n : Name)
  | unknownMetric (n : Name)
  | refMismatch (r : Name)
  | versionMismatch
  | invalidParameterValue (n : Name)
  | invalidMetricValue (n : Name)
  | illTyped
  deriving DecidableEq, Repr

/-! ### scalar leaves: datatype, equality, conversions -/

/-- `<T as HasDataType>::default_datatype()`: the first entry of `impl_basic_type!`;
`Option<T>` forwards to `T` -/
def dtOf : STy → DT
  | .bool => .boolean
  | .u8 => .uint8 | .u16 => .uint16 | .u32 => .uint32 | .u64 => .uint64
  | .i8 => .int8 | .i16 => .int16 | .i32 => .int32 | .i64 => .int64
  | .f32 => .float | .f64 => .double
  | .string => .string
  | .datetime => .datetime

/-- datatype code of a derived struct: `impl<T: Template> HasDataType for T` -/
def templateCode : Nat := DT.template.code

def isNaN32 (x : Nat) : Bool := (x / 8388608) % 256 == 255 && x % 8388608 != 0
def isNaN64 (x : Nat) : Bool := (x / 4503599627370496) % 2048 == 2047 && x % 4503599627370496 != 0

/-- Rust `==` on two values of scalar type `t` (IEEE on floats: NaN differs from itself,
the two zeros are equal) -/
def svEq (t : STy) : SV → SV → Bool
  | .n x, .n y =>
    match t with
    | .f32 => !isNaN32 x && !isNaN32 y && (x == y || (x % 2147483648 == 0 && y % 2147483648 == 0))
    | .f64 => !isNaN64 x && !isNaN64 y &&
        (x == y || (x % 9223372036854775808 == 0 && y % 9223372036854775808 == 0))
    | _ => x == y
  | .b x, .b y => x == y
  | .s x, .s y => x == y
  | _, _ => false

/-- `==` on a scalar cell (`Option<T>`: derived `PartialEq`) -/
def optEq (t : STy) : Option SV → Option SV → Bool
  | none, none => true
  | some x, some y => svEq t x y
  | _, _ => false

/-- `to_template_metric_value` / `to_template_parameter_value`: `Some(T::into(v))`, for
`Option<T>` `self.map(T::into)` -/
def toWire (t : STy) (v : Option SV) : Option PV := v.map (toProto t)

/-- `try_from_template_metric_value` / `try_from_template_parameter_value` for `T` and
`Option<T>`: an absent value is an error for `T` and `None` for `Option<T>`; a present value
goes through `T::try_from`. `none` = `Err(())`. -/
def convScalar (k : SKind) : Option PV → Option (Option SV)
  | some p =>
    match fromProto k.ty p with
    | .ok x => some (some x)
    | _ => none
  | none => if k.isOpt then some none else none

/-- what an arm of the metric loop sees of `metric.value` -/
inductive MVal where
  | val (v : Option PV)
  | templ
  deriving DecidableEq, Repr

/-- scalar metric arm: a `TemplateValue` is the wrong variant for every scalar type -/
def convMetric (k : SKind) : MVal → Option (Option SV)
  | .val v => convScalar k v
  | .templ => none

/-- `TemplateInstance::try_from(MetricValue)` on the two markers: `is_definition` must be
`Some(false)` (absent counts as a definition) and `template_ref` present -/
def instMarkers : Option Bool → Option Name → Option Name
  | some false, some r => some r
  | _, _ => none

/-! ### `template_definition` / `template_instance` -/

/-- the `parameters` vector: one `new_template_parameter(name, value)` per non-skipped
parameter field -/
def instParams : Fields → Vals → List WP
  | .nil, _ => []
  | .scalar w skip k _ rest, .s v vs =>
    if !skip && k.isParam then
      { name := some w, ty := some (dtOf k.ty).code, value := toWire k.ty v } :: instParams rest vs
    else instParams rest vs
  | .nested _ _ _ _ _ _ rest, .nest _ vs => instParams rest vs
  | _, _ => []

/-- the `metrics` vector: one `new_template_metric(name, value)` per non-skipped metric field;
a nested struct contributes `Some(template_instance(&v).into())`, i.e. a template value with
`is_definition = Some(false)` and `template_ref = Some(ref)` -/
def instMetrics : Fields → Vals → WMs
  | .nil, _ => .nil
  | .scalar w skip k _ rest, .s v vs =>
    if !skip && !k.isParam then
      .val (some w) (some (dtOf k.ty).code) (toWire k.ty v) (instMetrics rest vs)
    else instMetrics rest vs
  | .nested w skip ref ver sub _ rest, .nest sv vs =>
    if !skip then
      .templ (some w) (some templateCode) (some false) (some ref) ver
        (instMetrics sub sv) (instParams sub sv) (instMetrics rest vs)
    else instMetrics rest vs
  | _, _ => .nil

/-- the value of every field's default expression (`let mut f = #default;`) -/
def defaults : Fields → Vals
  | .nil => .nil
  | .scalar _ _ _ d rest => .s d (defaults rest)
  | .nested _ _ _ _ _ d rest => .nest d (defaults rest)

/-- `Template::template_definition()`: the same constructors as the instance, applied to the
default expressions -/
def definition (σ : Schema) : TDef :=
  { ver := σ.ver
    metrics := instMetrics σ.fields (defaults σ.fields)
    params := instParams σ.fields (defaults σ.fields) }

/-- `Template::template_instance(&self)` -/
def instanceOf (σ : Schema) (a : Vals) : TInst :=
  { ref := σ.ref, ver := σ.ver
    metrics := instMetrics σ.fields a
    params := instParams σ.fields a }

/-! ### `template_instance_from_difference(&self = b, other = a)` -/

/-- `if self.f != other.f { parameters.push(new_template_parameter(name, self.f.clone())) }` -/
def diffParams : Fields → Vals → Vals → List WP
  | .nil, _, _ => []
  | .scalar w skip k _ rest, .s vb bs, .s va as =>
    if !skip && k.isParam && !optEq k.ty vb va then
      { name := some w, ty := some (dtOf k.ty).code, value := toWire k.ty vb }
        :: diffParams rest bs as
    else diffParams rest bs as
  | .nested _ _ _ _ _ _ rest, .nest _ bs, .nest _ as => diffParams rest bs as
  | _, _, _ => []

/-- the tail of the generated function: `None` when both vectors are empty -/
def mkDiff (ref : Name) (ver : Option Name) (ms : WMs) (ps : List WP) : Option TInst :=
  if ps.isEmpty && ms.isEmpty then none
  else some { ref := ref, ver := ver, metrics := ms, params := ps }

/-- `if let Some(value) = metric_value_if_ne(&self.f, &other.f) { metrics.push(
new_template_metric_raw(name, default_datatype, value)) }`: scalars and options compare with
`==` and send the whole new value (`None` for an option that became `None`); a nested struct
sends its own difference instance, and nothing when that is `None` -/
def diffMetrics : Fields → Vals → Vals → WMs
  | .nil, _, _ => .nil
  | .scalar w skip k _ rest, .s vb bs, .s va as =>
    if !skip && !k.isParam && !optEq k.ty vb va then
      .val (some w) (some (dtOf k.ty).code) (toWire k.ty vb) (diffMetrics rest bs as)
    else diffMetrics rest bs as
  | .nested w skip ref ver sub _ rest, .nest sb bs, .nest sa as =>
    if skip then diffMetrics rest bs as
    else
      match mkDiff ref ver (diffMetrics sub sb sa) (diffParams sub sb sa) with
      | none => diffMetrics rest bs as
      | some d =>
        .templ (some w) (some templateCode) (some false) (some d.ref) d.ver d.metrics d.params
          (diffMetrics rest bs as)
  | _, _, _ => .nil

/-- `b.template_instance_from_difference(&a)` -/
def diff (σ : Schema) (b a : Vals) : Option TInst :=
  mkDiff σ.ref σ.ver (diffMetrics σ.fields b a) (diffParams σ.fields b a)

/-! ### `TryFrom<TemplateInstance>` -/

/-- the `match name.as_str()` of the parameter loop: the arm of the (non-skipped) parameter
field with that wire name assigns the converted value to the field's local, `_` is
`UnknownParameter` -/
def setParam : Fields → Vals → Name → Option PV → Except TErr Vals
  | .nil, _, n, _ => .error (.unknownParameter n)
  | .scalar w skip k _ rest, .s v vs, n, pv =>
    if !skip && k.isParam && w == n then
      match convScalar k pv with
      | some x => .ok (.s x vs)
      | none => .error (.invalidParameterValue w)
    else
      match setParam rest vs n pv with
      | .ok r => .ok (.s v r)
      | .error e => .error e
  | .nested _ _ _ _ _ _ rest, .nest sv vs, n, pv =>
    match setParam rest vs n pv with
    | .ok r => .ok (.nest sv r)
    | .error e => .error e
  | _, _, _, _ => .error .illTyped

/-- `for parameter in value.parameters { let name = parameter.name.ok_or(InvalidPayload)?; … }` -/
def fromParams (fs : Fields) : Vals → List WP → Except TErr Vals
  | loc, [] => .ok loc
  | loc, p :: ps =>
    match p.name with
    | none => .error .invalidPayload
    | some n =>
      match setParam fs loc n p.value with
      | .ok loc' => fromParams fs loc' ps
      | .error e => .error e

/-- the `match name.as_str()` of the metric loop of `try_from`. `nestedFrom ref ver sub` is
`Nested::try_from_template_metric_value(metric.value)` for a nested field whose struct has
that metadata (`none` = `Err(())`). -/
def fiMetric (mv : MVal) (nestedFrom : Name → Option Name → Fields → Option Vals) :
    Fields → Vals → Name → Except TErr Vals
  | .nil, _, n => .error (.unknownMetric n)
  | .scalar w skip k _ rest, .s v vs, n =>
    if !skip && !k.isParam && w == n then
      match convMetric k mv with
      | some x => .ok (.s x vs)
      | none => .error (.invalidMetricValue w)
    else
      match fiMetric mv nestedFrom rest vs n with
      | .ok r => .ok (.s v r)
      | .error e => .error e
  | .nested w skip ref ver sub _ rest, .nest sv vs, n =>
    if !skip && w == n then
      match nestedFrom ref ver sub with
      | some x => .ok (.nest x vs)
      | none => .error (.invalidMetricValue w)
    else
      match fiMetric mv nestedFrom rest vs n with
      | .ok r => .ok (.nest sv r)
      | .error e => .error e
  | _, _, _ => .error .illTyped

/-- body of the generated `try_from`: reference check, version check, locals initialised to
the defaults, parameter loop, metric loop (`metricsLoop`), struct literal -/
def fromWith (fref : Name) (fver : Option Name) (fs : Fields) (iref : Name) (iver : Option Name)
    (ps : List WP) (metricsLoop : Vals → Except TErr Vals) : Except TErr Vals :=
  if iref != fref then .error (.refMismatch iref)
  else if iver != fver then .error .versionMismatch
  else
    match fromParams fs (defaults fs) ps with
    | .error e => .error e
    | .ok loc => metricsLoop loc

/-- `for metric in value.metrics { … }` of `try_from`. A nested field converts
`Some(TemplateValue)` with `TemplateInstance::try_from` (markers) and then the nested struct's
own `try_from`; no value or any other variant is an error. -/
def fromMetrics : Fields → Vals → WMs → Except TErr Vals
  | _, loc, .nil => .ok loc
  | fs, loc, .val name _ v rest =>
    match name with
    | none => .error .invalidPayload
    | some n =>
      match fiMetric (.val v) (fun _ _ _ => none) fs loc n with
      | .ok loc' => fromMetrics fs loc' rest
      | .error e => .error e
  | fs, loc, .templ name _ isDef ref ver sub ps rest =>
    match name with
    | none => .error .invalidPayload
    | some n =>
      match fiMetric .templ (fun fref fver ffs =>
          match instMarkers isDef ref with
          | none => none
          | some r =>
            match fromWith fref fver ffs r ver ps (fun loc0 => fromMetrics ffs loc0 sub) with
            | .ok x => some x
            | .error _ => none) fs loc n with
      | .ok loc' => fromMetrics fs loc' rest
      | .error e => .error e

/-- `T::try_from(instance)` -/
def fromInstance (σ : Schema) (i : TInst) : Except TErr Vals :=
  fromWith σ.ref σ.ver σ.fields i.ref i.ver i.params (fun loc => fromMetrics σ.fields loc i.metrics)

/-! ### `update_from_instance(&mut self, instance)` -/

/-- a staging temporary `let mut f = None;` -/
inductive SCell where
  | keep
  | s (v : Option SV)
  | nest (sub : Vals)
  deriving DecidableEq, Repr

/-- one temporary per field, all `None` (a skipped field has no temporary: its cell stays
`keep`) -/
def stageInit : Fields → List SCell
  | .nil => []
  | .scalar _ _ _ _ rest => .keep :: stageInit rest
  | .nested _ _ _ _ _ _ rest => .keep :: stageInit rest

/-- parameter arm: `f = Some(converted)` or `InvalidParameterValue`; `_` is `UnknownParameter` -/
def stageParam : Fields → List SCell → Name → Option PV → Except TErr (List SCell)
  | .nil, _, n, _ => .error (.unknownParameter n)
  | .scalar w skip k _ rest, c :: st, n, pv =>
    if !skip && k.isParam && w == n then
      match convScalar k pv with
      | some x => .ok (.s x :: st)
      | none => .error (.invalidParameterValue w)
    else
      match stageParam rest st n pv with
      | .ok r => .ok (c :: r)
      | .error e => .error e
  | .nested _ _ _ _ _ _ rest, c :: st, n, pv =>
    match stageParam rest st n pv with
    | .ok r => .ok (c :: r)
    | .error e => .error e
  | _, _, _, _ => .error .illTyped

def stageParams (fs : Fields) : List SCell → List WP → Except TErr (List SCell)
  | st, [] => .ok st
  | st, p :: ps =>
    match p.name with
    | none => .error .invalidPayload
    | some n =>
      match stageParam fs st n p.value with
      | .ok st' => stageParams fs st' ps
      | .error e => .error e

/-- metric arm: `let mut tmp = self.f.clone(); try_update_from_metric_value(&mut tmp, value)
.map_err(InvalidMetricValue)?; f = Some(tmp);`. A scalar or option overwrites `tmp` with the
converted value; `nestedUpd ref ver sub tmp` is the nested struct's
`try_update_from_metric_value` (`none` = `Err(())`). -/
def armMetric (mv : MVal) (nestedUpd : Name → Option Name → Fields → Vals → Option Vals) :
    Fields → Vals → List SCell → Name → Except TErr (List SCell)
  | .nil, _, _, n => .error (.unknownMetric n)
  | .scalar w skip k _ rest, .s _ vs, c :: st, n =>
    if !skip && !k.isParam && w == n then
      match convMetric k mv with
      | some x => .ok (.s x :: st)
      | none => .error (.invalidMetricValue w)
    else
      match armMetric mv nestedUpd rest vs st n with
      | .ok r => .ok (c :: r)
      | .error e => .error e
  | .nested w skip ref ver sub _ rest, .nest sv vs, c :: st, n =>
    if !skip && w == n then
      match nestedUpd ref ver sub sv with
      | some x => .ok (.nest x :: st)
      | none => .error (.invalidMetricValue w)
    else
      match armMetric mv nestedUpd rest vs st n with
      | .ok r => .ok (c :: r)
      | .error e => .error e
  | _, _, _, _ => .error .illTyped

/-- `if let Some(v) = f { self.f = v; }` for every temporary -/
def commit : Vals → List SCell → Vals
  | .nil, _ => .nil
  | .s v vs, c :: st =>
    .s (match c with | .s x => x | _ => v) (commit vs st)
  | .nest sv vs, c :: st =>
    .nest (match c with | .nest x => x | _ => sv) (commit vs st)
  | a, [] => a

/-- body of the generated `update_from_instance`: reference check, version check, temporaries,
parameter loop, metric loop (`metricsLoop`), then — only now — the assignments to `self` -/
def updateWith (fref : Name) (fver : Option Name) (fs : Fields) (self : Vals) (iref : Name)
    (iver : Option Name) (ps : List WP)
    (metricsLoop : List SCell → Except TErr (List SCell)) : Except TErr Vals :=
  if iref != fref then .error (.refMismatch iref)
  else if iver != fver then .error .versionMismatch
  else
    match stageParams fs (stageInit fs) ps with
    | .error e => .error e
    | .ok st1 =>
      match metricsLoop st1 with
      | .error e => .error e
      | .ok st2 => .ok (commit self st2)

/-- `for metric in instance.metrics { … }` of `update_from_instance`. For a nested field:
no value leaves `tmp` as it is (`None => return Ok(())`), a non-template value is an error, a
template value goes through `TemplateInstance::try_from` (markers) and then the nested
struct's own `update_from_instance` on `tmp`. -/
def stageMetrics : Fields → Vals → List SCell → WMs → Except TErr (List SCell)
  | _, _, st, .nil => .ok st
  | fs, self, st, .val name _ v rest =>
    match name with
    | none => .error .invalidPayload
    | some n =>
      match armMetric (.val v) (fun _ _ _ tmp => match v with | none => some tmp | some _ => none)
          fs self st n with
      | .ok st' => stageMetrics fs self st' rest
      | .error e => .error e
  | fs, self, st, .templ name _ isDef ref ver sub ps rest =>
    match name with
    | none => .error .invalidPayload
    | some n =>
      match armMetric .templ (fun fref fver ffs tmp =>
          match instMarkers isDef ref with
          | none => none
          | some r =>
            match updateWith fref fver ffs tmp r ver ps
                (fun st0 => stageMetrics ffs tmp st0 sub) with
            | .ok x => some x
            | .error _ => none) fs self st n with
      | .ok st' => stageMetrics fs self st' rest
      | .error e => .error e

/-- `self.update_from_instance(instance)`: the result and the state of `*self` afterwards.
Every error return of the generated function precedes its first assignment to `self`. -/
def update (σ : Schema) (self : Vals) (i : TInst) : Except TErr Unit × Vals :=
  match updateWith σ.ref σ.ver σ.fields self i.ref i.ver i.params
      (fun st => stageMetrics σ.fields self st i.metrics) with
  | .ok v => (.ok (), v)
  | .error e => (.error e, self)

end Srad.Derive
