/-
M10 — model of the host application's event loop: `AppEventLoop` / `AppClient::cancel`
(srad-app/src/eventloop.rs), `SubscriptionConfig → Vec<TopicFilter>` (srad-app/src/config.rs),
the topic strings of srad-types/src/topic.rs and `StatePayload` / `LastWill::new_app`
(srad-client/src/types.rs).

Strings are `List Char` (`Str`) so that statements about `/`, `+`, `#` are provable; the driver
converts to and from UTF-8. Timestamps are `Nat` (`u64` in the Rust; no arithmetic is done on
them). The clock is a parameter: every step is given the `timestamp()` reading it would see.

Granularity. One `step` = one input handled to quiescence by a client that accepts calls in
order: `handle_online` publishes from a spawned task (`subscribe_many`, `publish_state_message`,
then `published_online_state := true`); the model runs that task to completion inside the step.
The results of the client calls are ignored by the code (`_ = …`) and therefore by the model.
A client that parks calls can let a first birth complete after a reconnect; that schedule is
outside this model (and outside C16, whose quantifier has no schedule dimension).

Panics: `AppEventLoop::new` panics on an invalid host id; `new` returns `none` for it.
No imports: linked into `srad_model`.
-/
namespace Srad.HostLoop

abbrev Str := List Char

/-! ### srad-types: names and topics -/

/-- `utils::validate_name(..).is_ok()` -/
def validName (s : Str) : Bool :=
  !s.isEmpty && s.all fun c => !(c = '+' || c = '/' || c = '#')

/-- `constants::SPBV01` -/
def spbv : Str := ['s', 'p', 'B', 'v', '1', '.', '0']

/-- `constants::STATE` -/
def stateLit : Str := ['S', 'T', 'A', 'T', 'E']

/-- `topic::state_host_topic` -/
def stateHostTopic (host : Str) : Str := spbv ++ '/' :: stateLit ++ '/' :: host

/-- `topic::node_topic_raw` (the verb as a string: `NBIRTH`, `NDATA`, …) -/
def nodeTopic (g v n : Str) : Str := spbv ++ '/' :: g ++ '/' :: v ++ '/' :: n

/-- `topic::device_topic` -/
def deviceTopic (g v n d : Str) : Str := spbv ++ '/' :: g ++ '/' :: v ++ '/' :: n ++ '/' :: d

/-- the `Topic` variants that are used as subscription filters -/
inductive Topic where
  | state (topic : Str)          -- `Topic::State(StateTopic)`
  | node (g n : Str)             -- `Topic::Node`
  | group (g : Str)              -- `Topic::Group`
  | full                         -- `Topic::FullNamespace`
  deriving DecidableEq, Repr

/-- `impl From<Topic> for String` -/
def Topic.render : Topic → Str
  | .state t => t
  | .node g n => spbv ++ '/' :: g ++ '/' :: '+' :: '/' :: n ++ ['/', '#']
  | .group g => spbv ++ '/' :: g ++ ['/', '+', '/', '#']
  | .full => spbv ++ ['/', '#']

/-! ### srad-app/src/config.rs -/

/-- `NamespaceSubConfig` -/
inductive NsSub where
  | group (g : Str)
  | node (g n : Str)
  deriving DecidableEq, Repr

/-- `SubscriptionConfig` -/
inductive SubCfg where
  | allGroups
  | singleGroup (g : Str)
  | custom (l : List NsSub)
  deriving DecidableEq, Repr

/-- `impl From<NamespaceSubConfig> for TopicFilter` -/
def NsSub.toTopic : NsSub → Topic
  | .group g => .group g
  | .node g n => .node g n

/-- `impl From<SubscriptionConfig> for Vec<TopicFilter>` (every filter has QoS 0) -/
def filters : SubCfg → List Topic
  | .allGroups => [.full]
  | .singleGroup g => [.group g]
  | .custom l => l.map NsSub.toTopic

/-! ### srad-client/src/types.rs -/

/-- `impl From<StatePayload> for Vec<u8>`: the JSON text, with exactly these spaces -/
def statePayload (online : Bool) (ts : Nat) : Str :=
  "{\"online\" : ".toList ++ (if online then "true" else "false").toList ++
    ", \"timestamp\" : ".toList ++ (Nat.repr ts).toList ++ ['}']

/-- `StatePayload::get_publish_quality_retain` as (qos level, retain): both variants are
`(AtLeastOnce, true)`; `LastWill::new_app` uses the same pair -/
def stateQosRetain (_online : Bool) : Nat × Bool := (1, true)

/-! ### the event loop -/

/-- `srad_client::Event` as far as the loop's STATE logic distinguishes events -/
inductive Ev where
  | online
  | offline
  | state (host : Str) (online : Bool) (ts : Nat)
  | other          -- Node / Device / InvalidPublish: no STATE or will side effect (C14 covers them)
  deriving DecidableEq, Repr

/-- observable effects: `EventLoop::set_last_will`, and the calls on the `Client` -/
inductive Eff where
  | setWill (topic : Str) (ts : Nat)       -- `LastWill::new_app(host, ts)`: offline STATE, QoS 1, retained
  | subscribe (fs : List Str)              -- `subscribe_many`
  | publishState (topic : Str) (online : Bool) (ts : Nat) (isTry : Bool)
  | disconnect
  deriving DecidableEq, Repr

/-- what `poll` returns (`AppEvent::Online | Offline | Cancelled`) -/
inductive Ret where
  | online | offline | cancelled
  deriving DecidableEq, Repr

structure St where
  online : Bool := false
  published : Bool := false     -- `AppState::published_online_state`
  willTs : Nat := 0
  /-- `poll` has taken a `Shutdown` and sits in `poll_until_offline_with_timeout` -/
  draining : Bool := false
  /-- a `Shutdown` sits unconsumed in the capacity-1 channel (a `cancel` during the drain) -/
  pending : Bool := false
  deriving DecidableEq, Repr

/-- `update_last_will` -/
def updateLastWill (host : Str) (s : St) (now : Nat) : St × List Eff :=
  ({ s with willTs := now }, [.setWill (stateHostTopic host) now])

/-- `AppEventLoop::new`; `none` = the panic on an invalid host id -/
def new (host : Str) (now : Nat) : Option (St × List Eff) :=
  if !validName host then none
  else some (updateLastWill host {} now)

/-- the filter list built in `handle_online` -/
def subscribeTopics (cfg : SubCfg) (host : Str) : List Topic :=
  let topics := filters cfg
  match cfg with
  | .allGroups => topics                     -- "we get STATE subscriptions for free"
  | _ => topics ++ [.state (stateHostTopic host)]

/-- `handle_online`, the spawned task run to completion -/
def handleOnline (cfg : SubCfg) (host : Str) (s : St) : St × List Eff × Option Ret :=
  if s.online then (s, [], none)
  else
    let s1 := { s with online := true }
    let timestamp := s1.willTs
    -- task::spawn(async move { subscribe_many; publish_state_message(Online); published := true })
    let eff := [Eff.subscribe ((subscribeTopics cfg host).map Topic.render),
                Eff.publishState (stateHostTopic host) true timestamp false]
    ({ s1 with published := true }, eff, some .online)

/-- `handle_offline` -/
def handleOffline (host : Str) (s : St) (now : Nat) : St × List Eff × Option Ret :=
  if !s.online then (s, [], none)
  else
    let s1 := { s with online := false, published := false }
    let (s2, eff) := updateLastWill host s1 now
    (s2, eff, some .offline)

/-- `handle_event` -/
def handleEvent (cfg : SubCfg) (host : Str) (s : St) (e : Ev) (now : Nat) :
    St × List Eff × Option Ret :=
  match e with
  | .offline => handleOffline host s now
  | .online => handleOnline cfg host s
  | .state h on _ =>
    if s.published && h == host then
      if on then (s, [], none)
      else (s, [.publishState (stateHostTopic host) true s.willTs false], none)
    else (s, [], none)
  | .other => (s, [], none)

/-- inputs of one step: an event from the client's event loop, `AppClient::cancel()` awaited to
completion, or one second of (virtual) time passing -/
inductive In where
  | ev (e : Ev)
  | cancel
  | timeout
  deriving DecidableEq, Repr

/-- `poll` takes a `Shutdown` from the channel and enters `poll_until_offline_with_timeout`:
with `online = false` the `while self.online` loop exits at once and `Cancelled` is returned -/
def takeShutdown (s : St) : St × List Ret :=
  if s.online then ({ s with draining := true }, [])
  else (s, [.cancelled])

/-- the drain ends (Offline seen, or the 1 s timeout): `poll` returns `Cancelled`; the caller
polls again and takes a pending `Shutdown`, if any -/
def endDrain (s : St) : St × List Ret :=
  let s1 := { s with draining := false }
  if s1.pending then
    let (s2, r) := takeShutdown { s1 with pending := false }
    (s2, .cancelled :: r)
  else (s1, [.cancelled])

/-- one input handled to quiescence -/
def step (cfg : SubCfg) (host : Str) (s : St) (i : In) (now : Nat) : St × List Eff × List Ret :=
  match i with
  | .ev e =>
    if s.draining then
      -- `poll_until_offline`: only `Event::Offline` is looked at, everything else is dropped
      match e with
      | .offline =>
        let (s1, eff, _) := handleOffline host s now
        let (s2, r) := endDrain s1
        (s2, eff, r)
      | _ => (s, [], [])
    else
      let (s1, eff, r) := handleEvent cfg host s e now
      (s1, eff, r.toList)
  | .timeout =>
    if s.draining then
      let (s2, r) := endDrain s
      (s2, [], r)
    else (s, [], [])
  | .cancel =>
    -- `AppClient::cancel`: try_publish_state_message(Offline { timestamp() }), send(Shutdown), disconnect
    let pub := Eff.publishState (stateHostTopic host) false now true
    if s.draining then
      if s.pending then
        -- channel full: this call parks in `Sender::send` after its publish; what it does when
        -- the slot frees is not modelled (the harness never issues a third outstanding cancel)
        (s, [pub], [])
      else ({ s with pending := true }, [pub, .disconnect], [])
    else
      let (s1, r) := takeShutdown s
      (s1, [pub, .disconnect], r)

/-- an input with the clock reading of its step -/
structure Step where
  inp : In
  now : Nat
  deriving DecidableEq, Repr

/-- run a list of steps from a state; the flat effect trace and the returned `AppEvent`s -/
def exec (cfg : SubCfg) (host : Str) : St → List Step → St × List Eff × List Ret
  | s, [] => (s, [], [])
  | s, x :: xs =>
    let (s1, e1, r1) := step cfg host s x.inp x.now
    let (s2, e2, r2) := exec cfg host s1 xs
    (s2, e1 ++ e2, r1 ++ r2)

/-- a whole history: construction at clock reading `now0`, then the steps -/
def history (cfg : SubCfg) (host : Str) (now0 : Nat) (steps : List Step) :
    Option (St × List Eff × List Ret) :=
  match new host now0 with
  | none => none
  | some (s0, e0) =>
    let (s, e, r) := exec cfg host s0 steps
    some (s, e0 ++ e, r)

/-- `Application::run` (generic_app.rs): `loop { if poll() is Cancelled { break } }` — of the
events `poll` would return in a step, the run loop sees those up to the first `Cancelled` -/
def runSees : List Ret → List Ret
  | [] => []
  | .cancelled :: _ => [.cancelled]
  | r :: t => r :: runSees t

/-! ### MQTT topic-filter matching (what the broker does with the subscribed filters) -/

/-- split at `/` (a string without `/` is one level; `a/` has a trailing empty level) -/
def levels : Str → List Str
  | [] => [[]]
  | c :: cs =>
    if c = '/' then [] :: levels cs
    else match levels cs with
      | [] => [[c]]
      | l :: ls => (c :: l) :: ls

/-- level-wise match: `+` matches exactly one level, a final `#` matches all remaining levels
(also none: `a/#` matches `a`), any other level must be equal -/
def matchLv : List Str → List Str → Bool
  | [], [] => true
  | [], _ :: _ => false
  | f :: fs, ts =>
    if f = ['#'] && fs.isEmpty then true
    else match ts with
      | [] => false
      | t :: ts' => (f = ['+'] || f = t) && matchLv fs ts'

def mqttMatch (filter topic : Str) : Bool := matchLv (levels filter) (levels topic)

end Srad.HostLoop
