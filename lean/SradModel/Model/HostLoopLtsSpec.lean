/-
Vocabulary for stating C16 over the LTS `Model/HostLoopLts`: the property clauses as scanners
(Bool functions) over the observation trace of an execution. Every scanner reads one observation
at a time and carries its own small state; none looks at the model's state. Definitions only.

Ghost observations (`spawn`, `flagSet`, `dropped`) mark the moments the clauses talk about and no
trait object sees: "the Online that spawned it", "its birth has gone out" (= the store to
`published_online_state`), "the shutdown drain discards the event".
-/
import SradModel.Model.HostLoopLts

namespace Srad.HostLoopLts

/-! ### fresh will on going offline -/

/-- `clk` = the clock reading, `fresh` = the observation just before was a will registration.
Every will carries the clock reading of the moment it is registered (so it differs from the
previous will whenever the clock moved), and every `Offline` returned by `poll` comes directly
after a will registration — before `poll` returns anything else, in particular the next `Online`. -/
def freshWillOk (clk : Nat) (fresh : Bool) : List Obs → Bool
  | [] => true
  | o :: t =>
    match o with
    | .clock n => freshWillOk n false t
    | .will ts => ts == clk && freshWillOk clk true t
    | .event .offline => fresh && freshWillOk clk false t
    | _ => freshWillOk clk false t

/-! ### the birth carries the will captured at its Online -/

/-- for task `k`: `w` = the registered will (last `will` seen), `cap` = the timestamp task `k`
captured when it was spawned. The spawn captures the will registered at that moment; every STATE
`{online:true}` the task hands over carries the captured timestamp. -/
def birthTsOk (k : Nat) (w cap : Option Nat) : List Obs → Bool
  | [] => true
  | o :: t =>
    match o with
    | .will ts => birthTsOk k (some ts) cap t
    | .spawn i _ ts => if i = k then w == some ts && cap.isNone && birthTsOk k w (some ts) t else birthTsOk k w cap t
    | .stateOn i _ ts _ => if i = k then cap == some ts && birthTsOk k w cap t else birthTsOk k w cap t
    | _ => birthTsOk k w cap t

/-- the stronger reading — every STATE birth carries the timestamp of the will registered *at the
moment it is handed over* (`w` = last `will` seen). It does NOT hold for every schedule (see
`C16L_stale_birth_possible`): a session whose subscribe was parked across a reconnect publishes the
timestamp it captured. -/
def birthIsRegisteredWillOk (w : Option Nat) : List Obs → Bool
  | [] => true
  | o :: t =>
    match o with
    | .will ts => birthIsRegisteredWillOk (some ts) t
    | .stateOn _ _ ts _ => w == some ts && birthIsRegisteredWillOk w t
    | _ => birthIsRegisteredWillOk w t

/-! ### subscribe before birth -/

/-- where task `k` stands, as far as the trace tells -/
inductive SubPhase where
  | unborn                -- not spawned yet
  | need                  -- a session task that has not subscribed yet
  | parked (id : Nat)     -- its `subscribe_many` (call `id`) is parked
  | returned              -- its `subscribe_many` has returned (accepted, rejected or resolved)
  | answer                -- an answer task (no subscription of its own)
  deriving DecidableEq, Repr

/-- for task `k`: a session task subscribes exactly once, first; its STATE birth is handed over
only in phase `returned` — never before the subscribe, never while the subscribe is parked. -/
def subBeforeBirthOk (k : Nat) (ph : SubPhase) : List Obs → Bool
  | [] => true
  | o :: t =>
    match o with
    | .spawn i sess _ =>
      if i = k then ph == .unborn && subBeforeBirthOk k (if sess then .need else .answer) t
      else subBeforeBirthOk k ph t
    | .sub i id dec =>
      if i = k then ph == .need && subBeforeBirthOk k (if dec = .park then .parked id else .returned) t
      else subBeforeBirthOk k ph t
    | .resolved id _ =>
      if ph = .parked id then subBeforeBirthOk k .returned t else subBeforeBirthOk k ph t
    | .stateOn i _ _ _ =>
      if i = k then (ph == .returned || ph == .answer) && subBeforeBirthOk k ph t
      else subBeforeBirthOk k ph t
    | _ => subBeforeBirthOk k ph t

/-! ### an own `{online:false}` is answered iff the birth has gone out -/

/-- `flag` = a session has stored `published_online_state` and no will has been registered since
(going offline clears it), `w` = the registered will, `exp` = the observation just before was the
poll of an own `{online:false}` STATE. Such a poll is followed at once by the spawn of an answer
task carrying the registered will's timestamp if `flag` holds (or by `dropped` inside the shutdown
drain), and by neither if it does not; no answer task is spawned otherwise. -/
def ownOffOk (flag : Bool) (w : Nat) (exp : Bool) : List Obs → Bool
  | [] => !(exp && flag)
  | o :: t =>
    match o with
    | .dropped => ownOffOk flag w false t
    | .spawn _ false ts => exp && flag && ts == w && ownOffOk flag w false t
    | .flagSet _ => !(exp && flag) && ownOffOk true w false t
    | .will ts => !(exp && flag) && ownOffOk false ts false t
    | .polled (.state true false) => !(exp && flag) && ownOffOk flag w true t
    | _ => !(exp && flag) && ownOffOk flag w false t

/-! ### "its birth has gone out" -/

/-- where the STATE birth of task `k` stands, as far as the trace tells -/
inductive BirthPhase where
  | notYet | parked (id : Nat) | returned
  deriving DecidableEq, Repr

/-- for task `k`: the store to `published_online_state` (`flagSet k`) happens only after the
task's STATE birth has been handed over and has returned (accepted, rejected, or parked and
resolved) -/
def flagAfterBirthOk (k : Nat) (ph : BirthPhase) : List Obs → Bool
  | [] => true
  | o :: t =>
    match o with
    | .stateOn i id _ dec =>
      if i = k then flagAfterBirthOk k (if dec = .park then .parked id else .returned) t
      else flagAfterBirthOk k ph t
    | .resolved id _ =>
      if ph = .parked id then flagAfterBirthOk k .returned t else flagAfterBirthOk k ph t
    | .flagSet i => if i = k then ph == .returned && flagAfterBirthOk k ph t else flagAfterBirthOk k ph t
    | _ => flagAfterBirthOk k ph t

/-! ### cancel -/

/-- `req` = cancels requested and not yet started, `pub` = cancels whose `{online:false}` has been
handed over and whose disconnect has not. Every offline STATE belongs to a requested cancel, goes
through `try_publish` (never parks) with the clock reading of that moment; every disconnect follows
the offline STATE of its cancel and never parks. -/
def cancelOk (clk req pub : Nat) : List Obs → Bool
  | [] => true
  | o :: t =>
    match o with
    | .clock n => cancelOk n req pub t
    | .cancelReq => cancelOk clk (req + 1) pub t
    | .stateOff _ ts dec => decide (0 < req) && ts == clk && dec != .park && cancelOk clk (req - 1) (pub + 1) t
    | .disc _ dec => decide (0 < pub) && dec != .park && cancelOk clk req (pub - 1) t
    | _ => cancelOk clk req pub t

def Obs.isCancelReq : Obs → Bool
  | .cancelReq => true
  | _ => false

def Obs.isStateOff : Obs → Bool
  | .stateOff .. => true
  | _ => false

def Obs.isDisc : Obs → Bool
  | .disc .. => true
  | _ => false

/-- cancels requested / offline STATEs handed over / disconnects handed over in a trace -/
def nCancelReq (tr : List Obs) : Nat := tr.countP Obs.isCancelReq
def nStateOff (tr : List Obs) : Nat := tr.countP Obs.isStateOff
def nDisc (tr : List Obs) : Nat := tr.countP Obs.isDisc

/-! ### the sequential model `Model/HostLoop` as a schedule of the LTS -/

open Srad.HostLoop (Str SubCfg stateHostTopic subscribeTopics)

/-- the state of the sequential model an LTS state stands for -/
def absSt (s : St) : HostLoop.St :=
  { online := s.online, published := s.flag, willTs := s.willTs, draining := s.drain.isSome, pending := s.shut }

/-- an observation as an effect of the sequential model (calls and will registrations) -/
def effOf (cfg : SubCfg) (host : Str) : Obs → Option HostLoop.Eff
  | .will ts => some (.setWill (stateHostTopic host) ts)
  | .sub _ _ _ => some (.subscribe ((subscribeTopics cfg host).map HostLoop.Topic.render))
  | .stateOn _ _ ts _ => some (.publishState (stateHostTopic host) true ts false)
  | .stateOff _ ts _ => some (.publishState (stateHostTopic host) false ts true)
  | .disc _ _ => some .disconnect
  | _ => none

/-- … and as an `AppEvent` returned by `poll` (the sequential model knows Online, Offline, Cancelled) -/
def retOf : Obs → Option HostLoop.Ret
  | .event .online => some .online
  | .event .offline => some .offline
  | .event .cancelled => some .cancelled
  | _ => none

def effs (cfg : SubCfg) (host : Str) (tr : List Obs) : List HostLoop.Eff := tr.filterMap (effOf cfg host)
def rets (tr : List Obs) : List HostLoop.Ret := tr.filterMap retOf

/-- an event of the sequential model as an event of the LTS -/
def evOf (host : Str) : HostLoop.Ev → Ev
  | .online => .online
  | .offline => .offline
  | .state h on _ => .state (h == host) on
  | .other => .junk

/-- quiescent states of the LTS as the sequential model sees them: nothing queued, every task
finished, no cancel in flight, a `Shutdown` left in the channel only while the loop drains, the
drain's deadline not yet reached -/
structure QS (s : St) : Prop where
  inbox : s.inbox = []
  done : ∀ t ∈ s.tasks, t.pc = .done
  c1 : s.cStart = 0
  c2 : s.cSend = 0
  c3 : s.cDisc = 0
  shut : s.shut = true → s.drain.isSome = true
  on : s.drain.isSome = true → s.online = true
  t1 : s.vt ≤ s.horizon
  t2 : s.horizon < s.vt + 1000
  dl : ∀ d, s.drain = some d → s.horizon < d ∧ d ≤ s.horizon + 1000

/-- the schedule that handles one input of the sequential model to quiescence under the
accept-all client: the clock is set, the input arrives, then the loop, the spawned task and the
cancel task run one after the other -/
def sched (host : Str) (s : St) (i : HostLoop.In) (now : Nat) : List Act :=
  let n := s.tasks.length
  match i with
  | .ev e =>
    [.stim (.clock now), .stim (.ev (evOf host e)), .task .loopEvent .acc] ++
    (match s.drain with
     | none =>
       (match evOf host e with
        | .online => if s.online then [] else [.task (.task n) .acc, .task (.task n) .acc, .task (.task n) .acc]
        | .state true false => if s.flag then [.task (.task n) .acc] else []
        | _ => [])
     | some _ =>
       (match evOf host e with
        | .offline => if s.shut then [.task .loopShutdown .acc] else []
        | _ => []))
  | .timeout =>
    .stim (.clock now) ::
    (match s.drain with
     | none => []
     | some _ =>
       [.stim (.adv 1000), .task .loopTimeout .acc] ++ (if s.shut then [.task .loopShutdown .acc] else []))
  | .cancel =>
    [.stim (.clock now), .stim .cancel, .task .cancelStart .acc, .task .cancelSend .acc, .task .cancelDisc .acc] ++
    (if s.drain.isSome then [] else [.task .loopShutdown .acc])

/-- every client decision in a list of actions is "accept" -/
def acceptAll (acts : List Act) : Bool :=
  acts.all fun a => match a with
    | .task _ d => d == .acc
    | .stim _ => true

end Srad.HostLoopLts
