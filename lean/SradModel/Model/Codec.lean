/-
M2 — model of the value codecs of srad-types/src/value.rs.

Conventions (DESIGN.md section 5): fixed-width numbers are bit patterns `Nat < 2^(8w)` (the
harness prints Rust values as their bit patterns: `i8 as u8`, `f32::to_bits`, …); bytes are
`List UInt8`; strings are byte lists with a validity predicate `valid` (Rust: `String::from_utf8`)
passed as a parameter; every Rust operation that can panic (slice index) is an explicit
`Res.panic`; `Vec::with_capacity(n)` is recorded as `alloc`.
No imports: linked into `srad_model`.
-/
namespace Srad.Codec

abbrev Bytes := List UInt8

inductive Err where
  | fmt        -- FromBytesError::InvalidFormat
  | size       -- FromBytesError::InvalidSize
  | utf8       -- FromBytesError::BadStringElement
  | variant    -- FromValueTypeError::InvalidVariantType
  | value      -- FromValueTypeError::InvalidValue
  | datatype   -- FromMetricValueError::InvalidDataType
  | unsupported -- FromMetricValueError::UnsupportedDataType
  deriving DecidableEq, Repr

inductive Res (α : Type) where
  | ok (v : α)
  | err (e : Err)
  | panic
  deriving Repr, DecidableEq

/-- result of an array decoder together with the capacity it reserved (in elements) -/
structure Dec (α : Type) where
  res : Res α
  alloc : Nat
  deriving Repr

/-! ### little-endian fixed width -/

/-- `x.to_le_bytes()` for a `w`-byte integer with bit pattern `n` -/
def le : Nat → Nat → Bytes
  | 0, _ => []
  | w + 1, n => UInt8.ofNat (n % 256) :: le w (n / 256)

/-- `from_le_bytes` -/
def unle : Bytes → Nat
  | [] => 0
  | b :: t => b.toNat + 256 * unle t

/-- `define_array_proto_conversions!`: `<ty>_vec_to_proto` -/
def encodeW (w : Nat) : List Nat → Bytes
  | [] => []
  | x :: t => le w x ++ encodeW w t

/-- `chunks_exact(w)` followed by `from_le_bytes` on each chunk; `n` chunks -/
def takeChunks (w : Nat) : Nat → Bytes → List Nat
  | 0, _ => []
  | n + 1, bs => unle (bs.take w) :: takeChunks w n (bs.drop w)

/-- `proto_to_<ty>_vec` for an element width of `w ≥ 1` bytes -/
def decodeW (w : Nat) (bs : Bytes) : Dec (List Nat) :=
  if bs.length % w ≠ 0 then { res := .err .fmt, alloc := 0 }
  else { res := .ok (takeChunks w (bs.length / w) bs), alloc := bs.length / w }

/-! ### boolean arrays -/

/-- `pack_byte_with_bool`: element `i` of the chunk goes to bit `7 - i` -/
def packByteAux : Nat → List Bool → Nat
  | _, [] => 0
  | i, b :: t => (if b then 2 ^ (7 - i) else 0) + packByteAux (i + 1) t

def packByte (bs : List Bool) : UInt8 := UInt8.ofNat (packByteAux 0 bs)

/-- `chunks_exact(8)` + remainder -/
def packBits : Nat → List Bool → Bytes
  | 0, _ => []
  | fuel + 1, l =>
    if l.isEmpty then [] else packByte (l.take 8) :: packBits fuel (l.drop 8)

/-- `bool_vec_to_proto`; the count is `vec.len() as u32` -/
def encodeBool (l : List Bool) : Bytes :=
  le 4 (l.length % 4294967296) ++ packBits (l.length + 1) l

/-- bit `j` (0 = least significant) of a byte: `((b >> j) & 1) == 1` -/
def bit (b : UInt8) (j : Nat) : Bool := (b.toNat / 2 ^ j) % 2 == 1

/-- all eight bits of a byte, most significant first -/
def bitsMsb (b : UInt8) : List Bool :=
  [bit b 7, bit b 6, bit b 5, bit b 4, bit b 3, bit b 2, bit b 1, bit b 0]

/-- the first `r` bits of a byte, most significant first -/
def topBits (b : UInt8) (r : Nat) : List Bool := (bitsMsb b).take r

/-- `proto_to_bool_vec`: 4-byte little-endian count, then MSB-first packed bits. The full
bytes are `count / 8`; the remaining `count % 8` bits come from the byte at index `count / 8`
(a slice index in the Rust: out of range = panic). -/
def decodeBool (bs : Bytes) : Dec (List Bool) :=
  if bs.length < 4 then { res := .err .size, alloc := 0 }
  else
    let count := unle (bs.take 4)
    if count = 0 then { res := .ok [], alloc := 0 }
    else
      let needed := (count + 7) / 8
      if bs.length < 4 + needed then { res := .err .fmt, alloc := 0 }
      else
        let data := bs.drop 4
        let full := count / 8
        let head := (data.take full).flatMap bitsMsb
        if count % 8 = 0 then { res := .ok head, alloc := count }
        else
          match data[full]? with
          | none => { res := .panic, alloc := count }
          | some b => { res := .ok (head ++ topBits b (count % 8)), alloc := count }

/-! ### string arrays -/

/-- `string_vec_to_proto` -/
def encodeStr : List Bytes → Bytes
  | [] => []
  | s :: t => s ++ (0 : UInt8) :: encodeStr t

/-- `slice.split(|x| *x == 0)`; `cur` is the current piece, reversed -/
def split0 : Bytes → Bytes → List Bytes
  | cur, [] => [cur.reverse]
  | cur, b :: t => if b = 0 then cur.reverse :: split0 [] t else split0 (b :: cur) t

/-- the `while let` loop: `String::from_utf8` on every piece in order; first failure wins -/
def validateAll (valid : Bytes → Bool) : List Bytes → Res (List Bytes)
  | [] => .ok []
  | p :: t =>
    if valid p then
      match validateAll valid t with
      | .ok r => .ok (p :: r)
      | e => e
    else .err .utf8

/-- `proto_to_string_vec` -/
def decodeStr (valid : Bytes → Bool) (bs : Bytes) : Dec (List Bytes) :=
  match bs.getLast? with
  | none => { res := .ok [], alloc := 0 }
  | some last =>
    if last ≠ 0 then { res := .err .fmt, alloc := 0 }
    else { res := validateAll valid (split0 [] bs).dropLast, alloc := 0 }

/-! ### scalars -/

/-- the thirteen Rust scalar types with a `MetricValue`/`PropertyValue`/`DataSetValue`/
`ParameterValue` conversion -/
inductive STy where
  | bool | u8 | u16 | u32 | u64 | i8 | i16 | i32 | i64 | f32 | f64 | string | datetime
  deriving DecidableEq, Repr

/-- a Rust scalar value: numbers as bit patterns -/
inductive SV where
  | n (bits : Nat)
  | b (v : Bool)
  | s (bytes : Bytes)
  deriving DecidableEq, Repr

/-- the protobuf `oneof value` variants (union over the four wrapper kinds) -/
inductive PV where
  | int (n : Nat)        -- IntValue(u32)
  | long (n : Nat)       -- LongValue(u64)
  | float (bits : Nat)   -- FloatValue(f32)
  | double (bits : Nat)  -- DoubleValue(f64)
  | bool (b : Bool)      -- BooleanValue
  | str (s : Bytes)      -- StringValue
  | bytes (b : Bytes)    -- BytesValue (metric only)
  | dataset              -- DatasetValue (metric only; content not modelled here)
  | template (isDef : Option Bool) (hasRef : Bool)
                         -- TemplateValue (metric only): the two markers; content is M4's business
  | ext                  -- ExtensionValue
  | pset                 -- PropertysetValue (property only)
  | psets                -- PropertysetsValue (property only)
  deriving DecidableEq, Repr

/-- width in bytes of the Rust type (0 for non-numeric) -/
def STy.width : STy → Nat
  | .u8 | .i8 => 1
  | .u16 | .i16 => 2
  | .u32 | .i32 | .f32 => 4
  | .u64 | .i64 | .f64 | .datetime => 8
  | _ => 0

/-- the value is a value of the type (bit pattern in range) -/
def STy.holds : STy → SV → Bool
  | .bool, .b _ => true
  | .string, .s _ => true
  | .bool, _ => false
  | .string, _ => false
  | t, .n bits => decide (bits < 2 ^ (8 * t.width))
  | _, _ => false

/-- `impl From<T> for <Wrapper>`: `<t>_to_proto` wrapped in the variant named in `impl_basic_type!` -/
def toProto : STy → SV → PV
  | .bool, .b v => .bool v
  | .u8, .n x | .u16, .n x | .u32, .n x => .int x
  | .i8, .n x | .i16, .n x | .i32, .n x => .int x      -- low bytes, upper bytes zero
  | .u64, .n x | .i64, .n x | .datetime, .n x => .long x
  | .f32, .n x => .float x
  | .f64, .n x => .double x
  | .string, .s x => .str x
  | _, _ => .ext   -- not a value of the type; excluded by `STy.holds`

/-- `impl TryFrom<Wrapper> for T` -/
def fromProto : STy → PV → Res SV
  | .bool, .bool v => .ok (.b v)
  | .u8, .int x | .i8, .int x => .ok (.n (x % 256))            -- `as u8` / low byte
  | .u16, .int x | .i16, .int x => .ok (.n (x % 65536))        -- `as u16` / low two bytes
  | .u32, .int x | .i32, .int x => .ok (.n x)
  | .u64, .long x | .i64, .long x | .datetime, .long x => .ok (.n x)
  | .f32, .float x => .ok (.n x)
  | .f64, .double x => .ok (.n x)
  | .string, .str x => .ok (.s x)
  | _, _ => .err .variant

/-! ### datatype-directed decoding: `MetricValueKind::try_from_metric_value` -/

/-- Sparkplug `DataType` (numeric codes as in the protobuf enum) -/
inductive DT where
  | unknown | int8 | int16 | int32 | int64 | uint8 | uint16 | uint32 | uint64 | float | double
  | boolean | string | datetime | text | uuid | dataset | bytes | file | template
  | propertyset | propertysetlist
  | int8arr | int16arr | int32arr | int64arr | uint8arr | uint16arr | uint32arr | uint64arr
  | floatarr | doublearr | boolarr | stringarr | datetimearr
  deriving DecidableEq, Repr

def DT.all : List DT :=
  [.unknown, .int8, .int16, .int32, .int64, .uint8, .uint16, .uint32, .uint64, .float, .double,
   .boolean, .string, .datetime, .text, .uuid, .dataset, .bytes, .file, .template,
   .propertyset, .propertysetlist,
   .int8arr, .int16arr, .int32arr, .int64arr, .uint8arr, .uint16arr, .uint32arr, .uint64arr,
   .floatarr, .doublearr, .boolarr, .stringarr, .datetimearr]

def DT.code (d : DT) : Nat := (DT.all.findIdx (· == d))

def DT.ofCode (n : Nat) : Option DT := DT.all[n]?

/-- what a `MetricValueKind` variant holds -/
inductive KV where
  | scalar (v : SV)
  | arrN (l : List Nat)
  | arrB (l : List Bool)
  | arrS (l : List Bytes)
  | raw (b : Bytes)
  | dataset
  | templDef             -- TemplateValue::Definition
  | templInst            -- TemplateValue::Instance
  deriving DecidableEq, Repr

/-- how each datatype is decoded: which scalar type / array decoder the match arm calls.
This is the table of `try_from_metric_value`; the name of the `MetricValueKind` variant
produced is the first component. -/
inductive Decoder where
  | scalar (t : STy)
  | arrW (w : Nat)
  | arrBool
  | arrStr
  | rawBytes
  | datasetV
  | templateV
  | invalid        -- DataType::Unknown
  | unsupported    -- PropertySet / PropertySetList
  deriving DecidableEq, Repr

/-- the match arms: datatype ↦ (name of the variant produced, decoder used) -/
def kindArm : DT → DT × Decoder
  | .unknown => (.unknown, .invalid)
  | .int8 => (.int8, .scalar .i8)
  | .int16 => (.int16, .scalar .i16)
  | .int32 => (.int32, .scalar .i32)
  | .int64 => (.int64, .scalar .i64)
  | .uint8 => (.uint8, .scalar .u8)
  | .uint16 => (.uint16, .scalar .u16)
  | .uint32 => (.uint32, .scalar .u32)
  | .uint64 => (.uint64, .scalar .u64)
  | .float => (.float, .scalar .f32)
  | .double => (.double, .scalar .f64)
  | .boolean => (.boolean, .scalar .bool)
  | .string => (.string, .scalar .string)
  | .datetime => (.datetime, .scalar .datetime)
  | .text => (.text, .scalar .string)
  | .uuid => (.uuid, .scalar .string)
  | .dataset => (.dataset, .datasetV)
  | .bytes => (.bytes, .rawBytes)
  | .file => (.file, .rawBytes)
  | .template => (.template, .templateV)
  | .propertyset => (.propertyset, .unsupported)
  | .propertysetlist => (.propertysetlist, .unsupported)
  | .int8arr => (.int8arr, .arrW 1)
  | .int16arr => (.int16arr, .arrW 2)
  | .int32arr => (.int32arr, .arrW 4)
  | .int64arr => (.int64arr, .arrW 8)
  | .uint8arr => (.uint8arr, .rawBytes)
  | .uint16arr => (.uint16arr, .arrW 2)
  | .uint32arr => (.uint32arr, .arrW 4)
  | .uint64arr => (.uint64arr, .arrW 8)
  | .floatarr => (.floatarr, .arrW 4)
  | .doublearr => (.doublearr, .arrW 8)
  | .boolarr => (.boolarr, .arrBool)
  | .stringarr => (.stringarr, .arrStr)
  | .datetimearr => (.datetimearr, .arrW 8)

def liftDec {α} (d : Dec α) (f : α → KV) : Res KV :=
  match d.res with
  | .ok v => .ok (f v)
  | .err e => .err e
  | .panic => .panic

/-- `TemplateValue::try_from(MetricValue)` on the two markers: `is_definition` absent is an
error; `true` goes to the definition decoder (which demands no `template_ref`), `false` to the
instance decoder (which demands one). -/
def templateValue : Option Bool → Bool → Res KV
  | none, _ => .err .value
  | some true, false => .ok .templDef
  | some true, true => .err .value
  | some false, true => .ok .templInst
  | some false, false => .err .value

/-- run a decoder on a metric value -/
def runDecoder (valid : Bytes → Bool) : Decoder → PV → Res KV
  | .scalar t, pv =>
    match fromProto t pv with
    | .ok v => .ok (.scalar v)
    | .err e => .err e
    | .panic => .panic
  | .arrW w, .bytes b => liftDec (decodeW w b) .arrN
  | .arrBool, .bytes b => liftDec (decodeBool b) .arrB
  | .arrStr, .bytes b => liftDec (decodeStr valid b) .arrS
  | .rawBytes, .bytes b => .ok (.raw b)
  | .datasetV, .dataset => .ok .dataset
  | .templateV, .template d r => templateValue d r
  | .invalid, _ => .err .datatype
  | .unsupported, _ => .err .unsupported
  | _, _ => .err .variant

/-- `MetricValueKind::try_from_metric_value`: variant name and content -/
def kindOf (valid : Bytes → Bool) (dt : DT) (pv : PV) : Res (DT × KV) :=
  let (name, d) := kindArm dt
  match runDecoder valid d pv with
  | .ok v => .ok (name, v)
  | .err e => .err e
  | .panic => .panic

/-- shape of a `kindOf` result: the variant produced or the error class (T-table `KindTable`) -/
inductive KShape where
  | ok (variantCode : Nat)
  | err (e : Err)
  | panic
  deriving DecidableEq, Repr

def kindShape (valid : Bytes → Bool) (dt : DT) (pv : PV) : KShape :=
  match kindOf valid dt pv with
  | .ok (k, _) => .ok k.code
  | .err e => .err e
  | .panic => .panic

end Srad.Codec
