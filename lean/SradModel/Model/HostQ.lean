/-
MQ — the host application WITHOUT quiescence between events: `Application::run` (dispatcher),
the per-node actors `Node::run` and the reorder-timeout tasks of srad-app/src/generic_app.rs as a
labelled transition system. `Model/Host.lean` is reused as a black box: an actor consuming one
input is `Host.step` (for an NDEATH: two of them, see `actEvs`).

What the quiescent model (`Host.appStep`) hides and this one shows:
* every node has a bounded FIFO `mpsc::channel(node_queue_size)` of `Message`s and a capacity-1
  channel of `RebirthReason`s; the dispatcher `send().await`s into the first (it is blocked while
  the queue is full) and `try_send`s into the second (a reason is dropped while one is pending);
* `Node::run` is an UNBIASED `select!` over the two receivers: when both are ready either may be
  taken, so a pending reason is consumed at any position relative to the queued messages;
* the reorder-timeout task is a separate task: when its sleep ends it `try_send`s `ReorderTimeout`
  into the same capacity-1 channel (dropped when a reason is pending); the actor aborts it with
  `cancel_reorder_timeout`;
* clock readings: `Message::NDeath(_, timestamp())` carries the DISPATCH time, everything else
  reads `timestamp()` / `SystemTime::now()` when it is HANDLED.

State = clock, the event loop's online flag, the node table, the inbox of events the event loop
has not handed to the dispatcher yet, and the nodes an `AppEvent::Offline` still has to be sent to.
Labels: `push ev` (environment), `dispatch`, `offl n` (one `send_message(Message::Offline)` of the
Offline loop; `HashMap` order = any order), `actMsg n` / `actReason n` (the two `select!` arms),
`fire n` (node n's timeout task completes), `tick` (the clock advances by 1 ms).
`step` is a partial function: `none` = the label is not enabled.
Imports only other models (linked into `srad_model`).
-/
import SradModel.Model.Host

namespace Srad.HostQ
open Srad.Host

deriving instance DecidableEq for Srad.Host.Ev
deriving instance DecidableEq for Srad.Host.St

/-- a `Message` in a node's queue: the input for the actor and the clock reading at which the
dispatcher built it (`disp`; the code carries it along only for `NDeath`) -/
structure QMsg where
  inp : In
  disp : Nat
  deriving DecidableEq, Repr

/-- the `now` reading a queued message is handled with at clock reading `t`: an NDEATH brings
its dispatch time along -/
def QMsg.now (m : QMsg) (t : Nat) : Nat :=
  match m.inp with
  | .ndeath _ => m.disp
  | _ => t

/-- the inputs that travel through a node's message queue (`enum Message`) -/
def isMsg : In → Bool
  | .nbirth _ _ _ _ | .ndeath _ | .rmsg _ _ _ | .offline => true
  | _ => false

/-- what `AppEventLoop::poll` yields (already validated, C14) -/
inductive AppEv where
  | node (n : Nat) (i : In)        -- `i` is nbirth / ndeath / rmsg
  | invalid (n : Nat)              -- AppEvent::InvalidPayload for node `n`
  | online
  | offline
  deriving DecidableEq, Repr

/-- events the event loop can produce: only the three message kinds, `u8` sequence numbers and
bdSeq (types of `NBirth::bdseq`, `NDeath::bdseq`, `seq`) -/
def AppEv.wf : AppEv → Bool
  | .node _ (.nbirth _ bd _ _) => decide (bd < 256)
  | .node _ (.ndeath bd) => decide (bd < 256)
  | .node _ (.rmsg seq _ _) => decide (seq < 256)
  | .node _ _ => false
  | _ => true

/-- one node: the actor's state, its two channels and its reorder-timeout task (`task = some dl`:
spawned and sleeping until `dl`; `Host.St.timer` is only the actor's `AbortHandle`) -/
structure Node where
  st : St := Host.init
  queue : List QMsg := []
  pending : Option Reason := none
  task : Option Nat := none
  deriving DecidableEq, Repr

structure State where
  clock : Nat
  online : Bool := false
  nodes : List (Nat × Node) := []
  inbox : List AppEv := []
  sending : List Nat := []
  deriving DecidableEq, Repr

def State.init (t0 : Nat) : State := { clock := t0 }

inductive Label where
  | push (ev : AppEv)
  | dispatch
  | offl (n : Nat)
  | actMsg (n : Nat)
  | actReason (n : Nat)
  | fire (n : Nat)
  | tick
  deriving DecidableEq, Repr

/-- what a transition did (everything a per-node observer can see, plus ghost information the
theorems talk about: which inputs the actor executed) -/
inductive Out where
  | created (n : Nat)                                   -- `create_node` (node-created callback)
  | enq (n : Nat) (m : QMsg)                            -- `send_message` completed
  | offered (n : Nat) (r : Reason) (ok : Bool)          -- `try_send(r)`; `ok = false`: dropped
  | tookMsg (n : Nat) (m : QMsg) (t : Nat) (evs : List Ev) (effs : List Eff)
  | tookReason (n : Nat) (r : Reason) (t : Nat) (effs : List Eff)
  deriving DecidableEq, Repr

def getNode (n : Nat) : List (Nat × Node) → Option Node
  | [] => none
  | (n', nd) :: t => if n' = n then some nd else getNode n t

def setNode (n : Nat) (nd : Node) : List (Nat × Node) → List (Nat × Node)
  | [] => [(n, nd)]
  | (n', nd') :: t => if n' = n then (n', nd) :: t else (n', nd') :: setNode n nd t

/-- node `n` as the application sees it; a node that was never created is indistinguishable from
a freshly created one -/
def State.node (σ : State) (n : Nat) : Node := (getNode n σ.nodes).getD {}

def State.withNode (σ : State) (n : Nat) (nd : Node) : State :=
  { σ with nodes := setNode n nd σ.nodes }

/-- `rebirth_tx.try_send(r)` on the capacity-1 channel -/
def offer (nd : Node) (r : Reason) : Node × Bool :=
  match nd.pending with
  | none => ({ nd with pending := some r }, true)
  | some _ => (nd, false)

/-- the inputs the actor executes for one queued message at clock reading `t`.
`Node::handle_death(bdseq, timestamp)`: `cancel_reorder_timeout(); set_stale(timestamp)` with the
DISPATCH time — exactly `Host.step` on an NDEATH whose bdSeq matches —, and on a mismatch
`issue_rebirth(OutOfSyncBdSeq)`, which reads the clock again (`set_stale(timestamp())`): the
second `Host.step`, at the handling time. When `m.disp = t` (or the birth timestamp is not ahead
of the dispatch time) the two together are `Host.step c s (.ndeath bd)` (`Proofs/HostQ`). -/
def actEvs (s : St) (m : QMsg) (t : Nat) : List Ev :=
  match m.inp with
  | .ndeath bd =>
    ⟨.ndeath s.bdseq, m.disp, t⟩ ::
      (if bd ≠ s.bdseq then [⟨.rebirthReq .outOfSyncBdSeq, t, t⟩] else [])
  | i => [⟨i, t, t⟩]

/-- the timeout task after the actor's step: `timerCancel` = `AbortHandle::abort`,
`timerStart` = `tokio::spawn(sleep(timeout) …)` at clock reading `t` -/
def taskAfter (c : Cfg) (t : Nat) : Option Nat → List Eff → Option Nat
  | k, [] => k
  | _, .timerCancel :: es => taskAfter c t none es
  | k, .timerStart :: es =>
    taskAfter c t (match c.reorderTimeout with | some d => some (t + d) | none => k) es
  | k, _ :: es => taskAfter c t k es

/-- the `rx.recv()` arm of `Node::run` -/
def Node.actMsg (c : Cfg) (t : Nat) (n : Nat) (nd : Node) : Option (Node × List Out) :=
  match nd.queue with
  | [] => none
  | m :: rest =>
    let evs := actEvs nd.st m t
    let r := Host.run c nd.st evs
    some ({ nd with st := r.1, queue := rest, task := taskAfter c t nd.task r.2 },
          [.tookMsg n m t evs r.2])

/-- the `rebirth_rx.recv()` arm of `Node::run` -/
def Node.actReason (c : Cfg) (t : Nat) (n : Nat) (nd : Node) : Option (Node × List Out) :=
  match nd.pending with
  | none => none
  | some r =>
    let x := Host.step c nd.st (.rebirthReq r) t t
    some ({ nd with st := x.1, pending := none, task := taskAfter c t nd.task x.2 },
          [.tookReason n r t x.2])

/-- the timeout task's sleep ends. Guard `dl ≤ t + 1`: the task sleeps on tokio's clock, the
deadline is computed here from a `timestamp()` reading in whole milliseconds; the harness aligns
the two so that a timer armed at reading m with timeout d expires at the end of reading m+d-1
(`Drv/Host.fireDue`). No theorem depends on this guard. -/
def Node.fire (t : Nat) (n : Nat) (nd : Node) : Option (Node × List Out) :=
  match nd.task with
  | none => none
  | some dl =>
    if dl ≤ t + 1 then
      let x := offer { nd with task := none } .reorderTimeout
      some (x.1, [.offered n .reorderTimeout x.2])
    else none

/-- `tx.send(msg).await` completes: only while the queue has room -/
def Node.enq (q : Nat) (n : Nat) (nd : Node) (m : QMsg) : Option (Node × List Out) :=
  if nd.queue.length < q then some ({ nd with queue := nd.queue ++ [m] }, [.enq n m]) else none

/-- `Application::handle_event` for the event at the head of the inbox (already removed from
`σ.inbox`); `none` = the dispatcher is blocked in `send().await` (the event stays where it is) -/
def dispatchEv (c : Cfg) (q : Nat) (σ : State) : AppEv → Option (State × List Out)
  | .online => some ({ σ with online := true }, [])
  | .offline =>
    -- `AppEventLoop::handle_offline`: a duplicate Offline is swallowed by the event loop
    if σ.online then some ({ σ with online := false, sending := σ.nodes.map Prod.fst }, [])
    else some (σ, [])
  | .invalid n =>
    if c.invalidPayload then
      -- `get_or_create_node`, then `issue_rebirth(InvalidPayload)` = `try_send`
      let pre : List Out := if (getNode n σ.nodes).isSome then [] else [.created n]
      let x := offer (σ.node n) .invalidPayload
      some (σ.withNode n x.1, pre ++ [.offered n .invalidPayload x.2])
    else some (σ, [])
  | .node n (.nbirth ts bd id ans) =>
    -- `get_or_create_node`, then `send_message`
    let pre : List Out := if (getNode n σ.nodes).isSome then [] else [.created n]
    match Node.enq q n (σ.node n) ⟨.nbirth ts bd id ans, σ.clock⟩ with
    | some (nd, o) => some (σ.withNode n nd, pre ++ o)
    | none => none
  | .node n (.ndeath bd) =>
    match getNode n σ.nodes with
    | none => some (σ, [])
    | some nd =>
      match Node.enq q n nd ⟨.ndeath bd, σ.clock⟩ with
      | some (nd', o) => some (σ.withNode n nd', o)
      | none => none
  | .node n i =>
    -- `get_node_or_issue_rebirth`
    match getNode n σ.nodes with
    | none =>
      let x := offer ({} : Node) .unknownNode
      some (σ.withNode n x.1, [.created n, .offered n .unknownNode x.2])
    | some nd =>
      match Node.enq q n nd ⟨i, σ.clock⟩ with
      | some (nd', o) => some (σ.withNode n nd', o)
      | none => none

/-- lift a transition of node `n` -/
def onNode (σ : State) (n : Nat) (f : Node → Option (Node × List Out)) : Option (State × List Out) :=
  match getNode n σ.nodes with
  | none => none
  | some nd =>
    match f nd with
    | some (nd', o) => some (σ.withNode n nd', o)
    | none => none

/-- the transition relation as a partial function; `q` = `node_queue_size` -/
def step (c : Cfg) (q : Nat) (σ : State) : Label → Option (State × List Out)
  | .push ev => if ev.wf then some ({ σ with inbox := σ.inbox ++ [ev] }, []) else none
  | .tick => some ({ σ with clock := σ.clock + 1 }, [])
  | .fire n => onNode σ n (Node.fire σ.clock n)
  | .actReason n => onNode σ n (Node.actReason c σ.clock n)
  | .actMsg n => onNode σ n (Node.actMsg c σ.clock n)
  | .offl n =>
    if n ∈ σ.sending then
      match onNode σ n (fun nd => Node.enq q n nd ⟨.offline, σ.clock⟩) with
      | some (σ', o) => some ({ σ' with sending := σ'.sending.erase n }, o)
      | none => none
    else none
  | .dispatch =>
    if σ.sending.isEmpty then
      match σ.inbox with
      | [] => none
      | ev :: rest => dispatchEv c q { σ with inbox := rest } ev
    else none

/-- run a list of labels; `none` as soon as one is not enabled -/
def execL (c : Cfg) (q : Nat) : State → List Label → Option (State × List Out)
  | σ, [] => some (σ, [])
  | σ, l :: ls =>
    match step c q σ l with
    | none => none
    | some (σ', o) =>
      match execL c q σ' ls with
      | none => none
      | some (σ'', o') => some (σ'', o ++ o')

/-- every execution from the initial state (any interleaving of the labels), with what it did -/
inductive Reach (c : Cfg) (q : Nat) (t0 : Nat) : State → List Out → Prop
  | init : Reach c q t0 (State.init t0) []
  | step {σ σ' : State} {outs o : List Out} (l : Label) :
      Reach c q t0 σ outs → HostQ.step c q σ l = some (σ', o) → Reach c q t0 σ' (outs ++ o)

/-! ### projections of an execution to one node -/

/-- the effects node `n`'s actor produced, in order -/
def Out.effs (n : Nat) : Out → List Eff
  | .tookMsg n' _ _ _ e => if n' = n then e else []
  | .tookReason n' _ _ e => if n' = n then e else []
  | _ => []

/-- the inputs node `n`'s actor executed, with their clock readings -/
def Out.hist (n : Nat) : Out → List Ev
  | .tookMsg n' _ _ evs _ => if n' = n then evs else []
  | .tookReason n' r t _ => if n' = n then [⟨.rebirthReq r, t, t⟩] else []
  | _ => []

/-- the messages node `n`'s actor took from its queue -/
def Out.tookMsgs (n : Nat) : Out → List QMsg
  | .tookMsg n' m _ _ _ => if n' = n then [m] else []
  | _ => []

/-- the reasons node `n`'s actor took from its rebirth channel -/
def Out.tookReasons (n : Nat) : Out → List Reason
  | .tookReason n' r _ _ => if n' = n then [r] else []
  | _ => []

/-- the messages the dispatcher put into node `n`'s queue -/
def Out.sent (n : Nat) : Out → List QMsg
  | .enq n' m => if n' = n then [m] else []
  | _ => []

/-- the reasons accepted into node `n`'s rebirth channel (dispatcher and timeout task) -/
def Out.accepted (n : Nat) : Out → List Reason
  | .offered n' r true => if n' = n then [r] else []
  | _ => []

def effsOf (n : Nat) (outs : List Out) : List Eff := outs.flatMap (Out.effs n)
def histOf (n : Nat) (outs : List Out) : List Ev := outs.flatMap (Out.hist n)
def tookMsgsOf (n : Nat) (outs : List Out) : List QMsg := outs.flatMap (Out.tookMsgs n)
def tookReasonsOf (n : Nat) (outs : List Out) : List Reason := outs.flatMap (Out.tookReasons n)
def sentOf (n : Nat) (outs : List Out) : List QMsg := outs.flatMap (Out.sent n)
def acceptedOf (n : Nat) (outs : List Out) : List Reason := outs.flatMap (Out.accepted n)

/-- the history in which every consumed message is ONE input: the message itself, an NDEATH with
its dispatch time as `now` (what `histOf` is when no NDEATH waited in a queue across a tick) -/
def Out.plainHist (n : Nat) : Out → List Ev
  | .tookMsg n' m t _ _ =>
    if n' = n then [⟨m.inp, m.now t, t⟩] else []
  | .tookReason n' r t _ => if n' = n then [⟨.rebirthReq r, t, t⟩] else []
  | _ => []

def plainHistOf (n : Nat) (outs : List Out) : List Ev := outs.flatMap (Out.plainHist n)

/-- the message inputs of a history, in order -/
def msgInputs (evs : List Ev) : List In := (evs.map (·.inp)).filter isMsg

/-- the inputs of a history that came out of the rebirth channel, in order -/
def reasonInputs (evs : List Ev) : List Reason :=
  evs.filterMap fun e => match e.inp with | .rebirthReq r => some r | _ => none

/-- no NDEATH waited in a queue while the clock moved on: every NDEATH was handled at the clock
reading it was dispatched at (true of every burst the harness runs: the clock is frozen) -/
def DeathsPrompt (outs : List Out) : Prop :=
  ∀ n bd d t evs effs, Out.tookMsg n ⟨.ndeath bd, d⟩ t evs effs ∈ outs → d = t

end Srad.HostQ
