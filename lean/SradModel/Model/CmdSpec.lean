/-
Vocabulary for stating C15 (not executed by the driver): the declarative reading of the
property text, independent of the control flow of `Model/Cmd.lean`.
-/
import SradModel.Model.Cmd

namespace Srad.Cmd
open Srad.Codec

/-! ### which metric is a rebirth request -/

/-- "the Node Control/Rebirth metric (by name)": carries that name and no alias -/
def Metric.isRebirth (m : Metric) : Bool := m.alias.isNone && m.name == some rebirthName

/-- the rebirth request of a payload is its *last* Node Control/Rebirth metric; the request is
valid when that metric is boolean true -/
def RebirthRequested (ms : List Metric) : Prop :=
  ∃ m, (ms.filter Metric.isRebirth).getLast? = some m ∧ m.value = some (.bool true)

/-! ### which metrics are delivered, and as what -/

/-- the identifier of a metric: its alias if it has one, else its name -/
def Metric.specId (m : Metric) : Option MetricId :=
  match m.alias, m.name with
  | some a, _ => some (.alias a)
  | none, some n => some (.name n)
  | none, none => none

/-- well-formed command metric: it has an identifier, and a value or an explicit null -/
def Metric.WellFormed (m : Metric) : Prop :=
  m.specId.isSome ∧ (m.value.isSome ∨ m.isNull = some true)

instance (m : Metric) : Decidable m.WellFormed := by unfold Metric.WellFormed; infer_instance

/-- what the manager is handed for a metric: identifier, metric timestamp, value (an explicit
null has no value) — nothing for a metric that is not well-formed -/
def Metric.delivery (m : Metric) : Option MessageMetric :=
  match m.specId with
  | some id => if m.value.isSome ∨ m.isNull = some true then some { id := id, ts := m.ts, value := m.value } else none
  | none => none

def deliveredSpec (ms : List Metric) : List MessageMetric := ms.filterMap Metric.delivery

/-- what a `SimpleMetricManager` handler of a metric of Rust type `ty` is called with for a
delivered value: an explicit null is passed on as `None`, a value is converted with
`T::try_from(MetricValue)` (M2's `fromProto`); `none` = the handler is not called -/
def convert (ty : STy) : Option PV → Option (Option SV)
  | none => some none
  | some pv =>
    match fromProto ty pv with
    | .ok sv => some (some sv)
    | _ => none

/-! ### effects -/

def Eff.isNBirth : Eff → Bool
  | .nbirth _ _ => true
  | _ => false

def Eff.isDevHandOver : Eff → Bool
  | .dbirth _ _ => true
  | .ddeath _ _ => true
  | _ => false

/-- a birth-sequence hand-over: NBIRTH, DBIRTH (or a DDEATH, which must not occur) -/
def Eff.isBirth (e : Eff) : Bool := e.isNBirth || e.isDevHandOver

/-- a manager being handed a command -/
def Eff.isCmd : Eff → Bool
  | .cmd _ _ _ => true
  | _ => false

def Eff.isCb : Eff → Bool
  | .cb _ _ _ => true
  | _ => false

/-- the target (node = none / device) of a manager call -/
def Eff.target? : Eff → Option (Option Nat)
  | .cmd t _ _ => some t
  | .cb t _ _ => some t
  | _ => none

/-- the manager call the property demands for a command addressed to `target`: a CMD message
with a payload timestamp hands the manager that timestamp and the delivered list; any other
message reaches no manager -/
def expectedCmd (target : Option Nat) (kind : MsgKind) (p : Payload) : List Eff :=
  if kind = .cmd then
    match p.ts with
    | some t => [.cmd target t (deliveredSpec p.metrics)]
    | none => []
  else []

/-! ### the rebirth decision -/

/-- the node honours the NCMD: it is a CMD with a payload timestamp whose rebirth request is
valid, the node is birthed, and the request is outside the cooldown (`st.last` = time of the
last request that passed this test) -/
def Honoured (st : St) (kind : MsgKind) (p : Payload) : Prop :=
  kind = .cmd ∧ p.ts.isSome ∧ RebirthRequested p.metrics ∧ st.birthed = true ∧
    st.cooldown ≤ st.wall - st.last

/-- the birth sequence demanded by the property: NBIRTH seq 0 with the bdSeq the node had,
then one DBIRTH per enabled device, numbered 1, 2, … (mod 256) -/
def birthSequence (bdSeq : Nat) (devs : List Dev) : List Eff :=
  .nbirth 0 bdSeq ::
    ((devs.filter (·.enabled)).zipIdx.map fun p => Eff.dbirth p.1.name ((p.2 + 1) % 256))

/-! ### states -/

/-- the node task is alive and not blocked; the wall clock has not gone back behind the last
accepted request -/
def St.Ready (st : St) : Prop := st.dead = false ∧ st.parked = none ∧ st.last ≤ st.wall

/-- invariant of every reachable state: a birthed node is online and not blocked; while the
node task is blocked the node is unbirthed -/
def St.Inv (st : St) : Prop :=
  (st.birthed = true → st.online = true) ∧
    (st.parked.isSome → st.birthed = false ∧ st.online = true)

/-- the state in which the node task resumes when the client resolves the parked NBIRTH of
`pk`: the blocked `node_birth` returns (birthed iff accepted), a parked rebirth command stores
its request time -/
def St.resumed (st : St) (pk : Parked) (ok : Bool) : St :=
  { st with parked := none, birthed := ok, queue := [], last := pk.setLast.getD st.last }

/-- every reachable state under a monotone wall clock: the invariant, the node task has not
panicked, and no stored request time lies in the future -/
def St.Good (st : St) : Prop :=
  st.Inv ∧ st.dead = false ∧ st.last ≤ st.wall ∧
    (∀ pk now, st.parked = some pk → pk.setLast = some now → now ≤ st.wall)

/-- the environment never sets the wall clock back -/
def Op.WallOk (st : St) : Op → Prop
  | .setWall w => st.wall ≤ w
  | _ => True

def MonotoneClock : St → List (List Dec × Op) → Prop
  | _, [] => True
  | st, (decs, op) :: t => op.WallOk st ∧ MonotoneClock (step decs st op).1 t

def St.init (cooldown wall : Nat) (devs : List Dev) (alias : Option Nat → Bytes → Nat) : St :=
  { cooldown := cooldown, wall := wall, devs := devs, alias := alias }

/-- run a history of steps (with the client decisions of each step) -/
def runSteps : St → List (List Dec × Op) → St
  | st, [] => st
  | st, (decs, op) :: t => runSteps (step decs st op).1 t

end Srad.Cmd
