/-
M12, continued — executable vocabulary for `Props/C08Sched2.lean` (C08T_*). Definitions only.

* `Sys.safe`: NO DBIRTH OF A DEVICE THAT IS NOT ENABLED IS PENDING ANYWHERE — the host holds no such
  device birthed, buffers no such DBIRTH, and none is in flight. (Session confusion, the one obstacle
  to convergence, needs such a DBIRTH.) Checkable at the moment the faults stop, without quiescing.
* `Action.keepsSwitches`: every action except the operator's `enable` / `disable`.
* `Sys.pipeBirthTs`: the timestamp of the newest NBIRTH the host has accepted or will be offered
  (the last NBIRTH in flight, else the host's `birthTs`); `Sys.sameTickNcmd`: the action delivers an
  NCMD to the node at exactly that clock reading — the node's rebirth would carry a timestamp the
  host ignores. `Sys.allBirthsBefore` / `Sys.staleTickNcmd` / `Sys.noStaleTick`: the same for an arbitrary
  pipeline (EVERY NBIRTH in flight and the host's `birthTs` are before the clock reading).
* `Sys.FreshBirth`, `Sys.Recoverable` (`Prop`s): the recoverable states beyond `safe`.
* `Sys.calmPoint`, `Sys.fairEnough`: the decidable progress predicate of `C08T_convergence_fair`.
-/
import SradModel.Model.LoopSched

namespace Srad.Loop
open Srad Srad.Host

/-- the device a DBIRTH names -/
def Msg.birthOf : Msg → Option Nat
  | .dbirth d _ _ _ => some d
  | _ => none

def rmsgBirthOf : Host.RMsg → Option Nat
  | .dbirth d _ _ => some d
  | _ => none

/-- every action except the operator's `enable` / `disable` -/
def Action.keepsSwitches : Action → Bool
  | .enable _ | .disable _ => false
  | _ => true

namespace Sys

/-- no DBIRTH of a device that is not enabled is pending anywhere: not applied (the host holds only
enabled devices birthed), not buffered by the host, not in flight -/
def safe (s : Sys) : Bool :=
  s.host.devices.all (fun p => decide (p.2 = .stale) || s.node.enabledNames.contains p.1) &&
  s.host.reseq.buf.all (fun x => match rmsgBirthOf x.2.2 with
    | some d => s.node.enabledNames.contains d | none => true) &&
  s.toHost.all (fun m => match m.birthOf with
    | some d => s.node.enabledNames.contains d | none => true)

/-- the timestamp of the last NBIRTH in `msgs`, else `dflt` -/
def lastBirthTs (dflt : Nat) : List Msg → Nat
  | [] => dflt
  | .nbirth ts _ _ :: t => lastBirthTs ts t
  | _ :: t => lastBirthTs dflt t

/-- the timestamp of the newest NBIRTH the host has accepted or will be offered -/
def pipeBirthTs (s : Sys) : Nat := lastBirthTs s.host.birthTs s.toHost

/-- the action delivers an NCMD to the node while the clock still reads the timestamp of the newest
NBIRTH in the pipeline: the rebirth it causes is stamped with a time the host will ignore -/
def sameTickNcmd (s : Sys) (a : Action) : Bool :=
  decide (a = .deliverNcmd) && decide (s.toNode ≠ 0) && decide (s.clock ≤ s.pipeBirthTs)

/-- no step of the schedule is a same-tick NCMD delivery -/
def noSameTick : Sys → List Action → Bool
  | _, [] => true
  | s, a :: t => !s.sameTickNcmd a && noSameTick (s.step a) t

/-- every NBIRTH the host has accepted or may still be offered is stamped before the current clock
reading: a birth of the node NOW carries a timestamp newer than all of them -/
def allBirthsBefore (s : Sys) : Bool :=
  decide (s.host.birthTs < s.clock) &&
  s.toHost.all (fun m => match m with | .nbirth ts _ _ => decide (ts < s.clock) | _ => true)

/-- the action delivers an NCMD to the node at a clock reading that some NBIRTH in the pipeline
(accepted by the host, or in flight) already carries -/
def staleTickNcmd (s : Sys) (a : Action) : Bool :=
  decide (a = .deliverNcmd) && decide (s.toNode ≠ 0) && !s.allBirthsBefore

/-- no step of the schedule is such a delivery -/
def noStaleTick : Sys → List Action → Bool
  | _, [] => true
  | s, a :: t => !s.staleTickNcmd a && noStaleTick (s.step a) t

/-- **a newer NBIRTH is in flight**: what is in flight splits as `pre ++ NBIRTH(c) :: post` where `c` is
newer than the birth the host follows and than every NBIRTH of `pre` (so the host WILL accept it,
whatever happens before: an accepted NBIRTH marks every device stale and empties the buffer), and
every DBIRTH of `post` names an enabled device -/
def FreshBirth (s : Sys) : Prop :=
  ∃ pre c bd id post, s.toHost = pre ++ Msg.nbirth c bd id :: post ∧ s.host.birthTs < c ∧
    (∀ ts bd' id', Msg.nbirth ts bd' id' ∈ pre → ts < c) ∧
    ∀ m ∈ post, ∀ dv, m.birthOf = some dv → dv ∈ s.node.enabledNames

/-- **recoverable**: both sides connected, and the state is `safe`, or a newer NBIRTH is in flight
(`FreshBirth`), or a rebirth NCMD is in flight towards the node (its rebirth is still to come) -/
def Recoverable (s : Sys) : Prop :=
  s.nodeConn = true ∧ s.hostConn = true ∧ (s.safe = true ∨ s.FreshBirth ∨ s.toNode ≠ 0)

/-- **a calm point**: both sides connected, nothing in flight towards the host, no reorder timer
running, and the host's record of the node is either stale or in step with the node (nothing buffered,
expecting the node's next number, holding exactly the enabled devices birthed). Rebirth NCMDs may be in
flight towards the node, any number of them. ("Everything that was in flight has been delivered, the
clock has passed any deadline that was armed, and the host is not waiting behind a gap.") -/
def calmPoint (s : Sys) : Bool :=
  s.nodeConn && s.hostConn && s.toHost.isEmpty && decide (s.host.timer = .none) &&
  (decide (s.host.life = .stale) ||
    (decide (s.host.reseq = { buf := [], next := (s.node.seq + 1) % 256, mode := .good }) &&
     s.node.devs.all (fun x => !x.enabled || decide (Host.findDev x.name s.host.devices = some .birthed)) &&
     s.host.devices.all (fun p => decide (p.2 = .stale) || s.node.enabledNames.contains p.1)))

/-- **enough progress, as a decidable predicate on the schedule**: at some position `i` of `σ` the
system is at a calm point, and from there on no step is a same-tick NCMD delivery -/
def fairEnough (s : Sys) (σ : List Action) : Bool :=
  (List.range (σ.length + 1)).any fun i =>
    calmPoint (s.run (σ.take i)) && noSameTick (s.run (σ.take i)) (σ.drop i)

end Sys

end Srad.Loop
