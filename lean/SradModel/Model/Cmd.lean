/-
M7-cmd + M11-seq — model of command handling in the edge node.

* srad-eon/src/metric.rs: `MessageMetric::try_from(Metric)`, `MessageMetricsIterator::next`,
  `MessageMetrics::try_from(Payload)`.
* srad-eon/src/node.rs: `Node::on_sparkplug_message` (rebirth recognition loop, cooldown,
  `rebirth`, `node_birth`, `birth`), `on_online`, `on_offline`, `EoNState::get_next_seq`.
* srad-eon/src/device.rs: `Device::birth`, `death`, `enable`, `disable`,
  `handle_sparkplug_message`, `DeviceMap::{birth_devices,on_death,handle_device_message,remove_device}`.
* srad-eon/src/metric_manager/simple.rs: `register_metric`, `initialise_birth` (the `cmd_lookup`
  snapshot), `get_callbacks_from_cmd_message_metrics`, `cmd_cb`.

Granularity: one `step` = one stimulus handled to quiescence on a current-thread runtime: the
node task runs until it is idle or blocked in a parked NBIRTH hand-over, then every device task
handles what the node task sent it (`birth_devices` / `on_death` broadcast to all registered
devices). Client answers are parameters (`Dec` per NBIRTH hand-over, subscribe ok?); DBIRTH /
DDEATH hand-overs are accepted. The wall clock read by the cooldown is the state field `wall`
(set by the environment). Panics are explicit (`Eff.panic`, the node task is then `dead`):
`now - self.last_node_rebirth_request` is a `Duration` subtraction and panics when the clock
went backwards. Device names are opaque tokens (`Nat`), metric names are their UTF-8 bytes, the
alias hash is a parameter (`St.alias`). `u8` wrap-arounds are explicit `% 256`.

`MessageMetric::try_from`: `is_null = true` without a value is delivered as "no value",
`is_null = false` without a value is malformed (fix 9f682ec).

Node births are numbered (fixes c9658b2, 9cddb19): `epoch` is bumped by `start_birth` (u64,
wrapping); the birth notification to the devices carries the epoch of the node birth it belongs
to and a device acts on it only while that epoch is current; a device remembers the epoch it
was birthed in and hands over a DDEATH only while that epoch is current. A device removed from
the map leaves `devs` in the same step, so `DeviceState.removed` needs no field here. The
`stopping` flag (6328f71) concerns `cancel`, which is not a stimulus of this component.

Imports only other models (linked into `srad_model`).
-/
import SradModel.Model.Codec

namespace Srad.Cmd
open Srad.Codec

/-- `srad_types::constants::NODE_CONTROL_REBIRTH` = "Node Control/Rebirth" (UTF-8) -/
def rebirthName : Bytes :=
  [78, 111, 100, 101, 32, 67, 111, 110, 116, 114, 111, 108, 47, 82, 101, 98, 105, 114, 116, 104]

/-- the fields of `payload::Metric` the command path reads -/
structure Metric where
  name : Option Bytes := none
  alias : Option Nat := none
  ts : Option Nat := none
  isNull : Option Bool := none
  value : Option PV := none
  deriving DecidableEq, Repr

/-- `srad_types::MetricId` -/
inductive MetricId where
  | name (n : Bytes)
  | alias (a : Nat)
  deriving DecidableEq, Repr

/-- `MessageMetric` (its `properties` field is always `None`) -/
structure MessageMetric where
  id : MetricId
  ts : Option Nat
  value : Option PV
  deriving DecidableEq, Repr

structure Payload where
  ts : Option Nat
  metrics : List Metric
  deriving DecidableEq, Repr

/-! ### metric.rs -/

/-- `impl TryFrom<Metric> for MessageMetric` (`none` = `Err(())`)  (fix 9f682ec) -/
def toMessageMetric (m : Metric) : Option MessageMetric :=
  let id? : Option MetricId :=
    match m.alias with
    | some a => some (.alias a)
    | none =>
      match m.name with
      | some n => some (.name n)
      | none => none
  match id? with
  | none => none
  | some id =>
    if m.value.isSome then some { id := id, ts := m.ts, value := m.value }
    else
      match m.isNull with
      | some isNull => if !isNull then none else some { id := id, ts := m.ts, value := none }
      | none => none

/-- `for metric in message_metrics` = repeated `MessageMetricsIterator::next`, which skips
metrics that fail to convert -/
def drainIter : List Metric → List MessageMetric
  | [] => []
  | m :: t =>
    match toMessageMetric m with
    | some mm => mm :: drainIter t
    | none => drainIter t

/-! ### node.rs: rebirth recognition -/

/-- `match &x.value { Some(Value::BooleanValue(val)) => *val, _ => false }` -/
def rebirthVal (x : Metric) : Bool :=
  match x.value with
  | some (.bool v) => v
  | _ => false

/-- the `for x in &payload.metrics` loop of `on_sparkplug_message`; `acc` is `rebirth` -/
def rebirthLoop (acc : Bool) : List Metric → Bool
  | [] => acc
  | x :: t =>
    if x.alias.isSome then rebirthLoop acc t
    else
      match x.name with
      | none => rebirthLoop acc t
      | some n =>
        if n ≠ rebirthName then rebirthLoop acc t
        else
          rebirthLoop (rebirthVal x) t

def rebirthRequested (ms : List Metric) : Bool := rebirthLoop false ms

/-! ### SimpleMetricManager -/

structure SMetric where
  name : Bytes
  useAlias : Bool
  hasCb : Bool
  ty : STy
  deriving DecidableEq, Repr

/-- a metric manager as seen from the command path: the registered metrics and the
`cmd_lookup` snapshot taken by the latest `initialise_birth`. The recording manager of the
harness is the manager with no metrics. -/
structure Mgr where
  metrics : List SMetric := []
  lookup : List (MetricId × SMetric) := []
  deriving DecidableEq, Repr

/-- `register_metric`: refused when the name exists -/
def Mgr.register (g : Mgr) (m : SMetric) : Mgr :=
  if g.metrics.any (fun x => x.name == m.name) then g else { g with metrics := g.metrics ++ [m] }

def SMetric.id (alias : Bytes → Nat) (m : SMetric) : MetricId :=
  if m.useAlias then .alias (alias m.name) else .name m.name

/-- `MetricManager::initialise_birth`: every metric is birthed, those with a handler enter
`cmd_lookup` under the id the birth gave them -/
def Mgr.initialiseBirth (alias : Bytes → Nat) (g : Mgr) : Mgr :=
  { g with lookup := (g.metrics.filter (·.hasCb)).map (fun m => (m.id alias, m)) }

/-- observable effects -/
inductive Eff where
  | sub                                     -- subscribe_many handed over
  | nbirth (seq bdSeq : Nat)                -- NBIRTH handed over
  | dbirth (dev seq : Nat)
  | ddeath (dev seq : Nat)
  | will (bdSeq : Nat)                      -- set_last_will after an offline
  | cmd (target : Option Nat) (ts : Nat) (ms : List MessageMetric)
                                            -- on_ncmd (none) / on_dcmd (some device) invoked
  | cb (target : Option Nat) (metric : Bytes) (v : Option SV)
                                            -- SimpleMetricManager command handler invoked
  | panic
  deriving DecidableEq, Repr

/-- `Stored::cmd_cb`: value conversion `T::try_from(MetricValue)`; failure = no call -/
def cbFor (target : Option Nat) (m : SMetric) (mm : MessageMetric) : List Eff :=
  match mm.value with
  | some v =>
    match fromProto m.ty v with
    | .ok sv => [.cb target m.name (some sv)]
    | _ => []
  | none => [.cb target m.name none]

/-- `handle_cmd_metrics`: look every message metric up by id, in message order -/
def Mgr.callbacks (g : Mgr) (target : Option Nat) : List MessageMetric → List Eff
  | [] => []
  | mm :: t =>
    match g.lookup.find? (fun e => e.1 == mm.id) with
    | some e => cbFor target e.2 mm ++ g.callbacks target t
    | none => g.callbacks target t

/-- a CMD payload that passed `MessageMetrics::try_from` reaches a manager -/
def deliver (target : Option Nat) (g : Mgr) (ts : Nat) (ms : List Metric) : List Eff :=
  let mms := drainIter ms
  .cmd target ts mms :: g.callbacks target mms

/-! ### node and device state -/

inductive MsgKind where
  | birth | death | cmd | data | other
  deriving DecidableEq, Repr

inductive BirthTy where
  | birth | rebirth
  deriving DecidableEq, Repr

/-- how the client answers a blocking hand-over -/
inductive Dec where
  | accept | reject | park
  deriving DecidableEq, Repr

structure Dev where
  name : Nat
  enabled : Bool := false
  flag : Bool := false            -- `DeviceState.birthed`
  birthEpoch : Nat := 0           -- `DeviceState.birth_epoch`: node birth of the accepted DBIRTH
  mgr : Mgr := {}
  deriving DecidableEq, Repr

/-- the node task is blocked in the NBIRTH hand-over of a birth of type `ty`; `setLast` is the
`now` a rebirth command will store in `last_node_rebirth_request` once `rebirth()` returns -/
structure Parked where
  ty : BirthTy
  setLast : Option Nat
  deriving DecidableEq, Repr

/-- inputs of the node task -/
inductive NodeIn where
  | online (subOk : Bool)
  | offline
  | msg (kind : MsgKind) (p : Payload)
  deriving DecidableEq, Repr

structure St where
  online : Bool := false
  birthed : Bool := false
  dead : Bool := false            -- the node task panicked
  seq : Nat := 0
  epoch : Nat := 0                -- `EoNStateInner.birth_epoch`
  bdSeq : Nat := 0
  last : Nat := 0                 -- `last_node_rebirth_request` (ms)
  wall : Nat := 0                 -- the wall clock (ms)
  cooldown : Nat := 0             -- `node_rebirth_request_cooldown` (ms)
  nodeMgr : Mgr := {}
  devs : List Dev := []           -- registered devices, in hash-map / scheduler order
  parked : Option Parked := none
  queue : List NodeIn := []       -- node inputs waiting while the task is blocked
  alias : Option Nat → Bytes → Nat := fun _ _ => 0

/-- `EoNState::get_next_seq_and_epoch(required)`: `cur` is the current birth epoch (which is
also the epoch returned on success) -/
def getNextSeq (online birthed : Bool) (cur : Nat) (required : Option Nat) (seq : Nat) : Option Nat :=
  if !online then none
  else if !birthed then none
  else
    match required with
    | some e => if e ≠ cur then none else some ((seq + 1) % 256)
    | none => some ((seq + 1) % 256)

/-! ### device.rs -/

inductive DevMsg where
  | birth (ty : BirthTy) (epoch : Nat)   -- NodeStateMessage::Birth(ty, registry, node_birth_epoch)
  | death                      -- NodeStateMessage::Death
  | removed                    -- NodeStateMessage::Removed
  | enable | disable           -- DeviceHandleRequest
  | cmd (kind : MsgKind) (p : Payload)
  deriving DecidableEq, Repr

/-- `Device::birth(ty, node_birth_epoch)` (the DBIRTH hand-over is accepted) -/
def devBirth (alias : Bytes → Nat) (online birthed : Bool) (cur : Nat) (seq : Nat) (d : Dev)
    (ty : BirthTy) (nodeEpoch : Option Nat) : Nat × Dev × List Eff :=
  if !d.enabled then (seq, d, [])
  else if ty == .birth && d.flag then (seq, d, [])
  else
    match getNextSeq online birthed cur nodeEpoch seq with
    | none => (seq, d, [])
    | some s =>
      (s, { d with flag := true, birthEpoch := cur, mgr := d.mgr.initialiseBirth alias },
        [.dbirth d.name s])

/-- `Device::death` -/
def devDeath (online birthed : Bool) (cur : Nat) (seq : Nat) (d : Dev) (publish : Bool) :
    Nat × Dev × List Eff :=
  if !d.flag then (seq, d, [])
  else
    let d' := { d with flag := false }
    if publish then
      match getNextSeq online birthed cur (some d.birthEpoch) seq with
      | none => (seq, d', [])
      | some s => (s, d', [.ddeath d.name s])
    else (seq, d', [])

/-- `Device::handle_sparkplug_message` -/
def devCmd (d : Dev) (kind : MsgKind) (p : Payload) : List Eff :=
  if kind ≠ .cmd then []
  else
    match p.ts with
    | none => []
    | some t => deliver (some d.name) d.mgr t p.metrics

/-- one iteration of `Device::run` -/
def devHandle (alias : Bytes → Nat) (online birthed : Bool) (cur : Nat) (seq : Nat) (d : Dev) :
    DevMsg → Nat × Dev × List Eff
  | .birth ty e => devBirth alias online birthed cur seq d ty (some e)
  | .death => devDeath online birthed cur seq d false
  | .removed => devDeath online birthed cur seq d true
  | .enable => devBirth alias online birthed cur seq { d with enabled := true } .birth none
  | .disable => devDeath online birthed cur seq { d with enabled := false } true
  | .cmd kind p => (seq, d, devCmd d kind p)

/-- a device task handling everything in its channels -/
def devRun (alias : Bytes → Nat) (online birthed : Bool) (cur : Nat) :
    Nat → Dev → List DevMsg → Nat × Dev × List Eff
  | seq, d, [] => (seq, d, [])
  | seq, d, m :: t =>
    let r1 := devHandle alias online birthed cur seq d m
    let r2 := devRun alias online birthed cur r1.1 r1.2.1 t
    (r2.1, r2.2.1, r1.2.2 ++ r2.2.2)

/-- every registered device handles the broadcast `bc` of the node task, one device task
after the other in the order of `devs` -/
def devPhase (alias : Option Nat → Bytes → Nat) (online birthed : Bool) (cur : Nat)
    (bc : List DevMsg) : Nat → List Dev → Nat × List Dev × List Eff
  | seq, [] => (seq, [], [])
  | seq, d :: ds =>
    let r1 := devRun (alias (some d.name)) online birthed cur seq d bc
    let r2 := devPhase alias online birthed cur bc r1.1 ds
    (r2.1, r1.2.1 :: r2.2.1, r1.2.2 ++ r2.2.2)

/-! ### node.rs -/

/-- result of the node task handling one input: state, effects, broadcast to the devices,
remaining client decisions -/
structure NodeOut where
  st : St
  effs : List Eff
  bc : List DevMsg
  decs : List Dec

/-- `Node::birth` (= `node_birth` + `birth_devices`); `setLast` is threaded for a parked rebirth -/
def nodeBirth (decs : List Dec) (ty : BirthTy) (setLast : Option Nat) (st : St) : NodeOut :=
  -- start_birth (seq 0, next epoch); generate_birth_payload calls the manager's initialise_birth
  let ep := (st.epoch + 1) % 18446744073709551616
  let st1 : St := { st with birthed := false, seq := 0, epoch := ep,
                            nodeMgr := st.nodeMgr.initialiseBirth (st.alias none) }
  let e := [Eff.nbirth 0 st.bdSeq]
  match decs.head?.getD .accept with
  | .accept =>
    -- birth_completed returns the epoch; birth_devices sends it along
    { st := { st1 with birthed := true }, effs := e, bc := [.birth ty ep], decs := decs.tail }
  | .reject => { st := st1, effs := e, bc := [], decs := decs.tail }
  | .park => { st := { st1 with parked := some { ty := ty, setLast := setLast } }, effs := e, bc := [],
               decs := decs.tail }

/-- `Node::on_online` -/
def onOnline (decs : List Dec) (subOk : Bool) (st : St) : NodeOut :=
  if st.online then { st := st, effs := [], bc := [], decs := decs }
  else
    let st1 : St := { st with online := true }
    if subOk then
      let r := nodeBirth decs .birth none st1
      { r with effs := .sub :: r.effs }
    else { st := st1, effs := [.sub], bc := [], decs := decs }

/-- `Node::on_offline` + `death` -/
def onOffline (decs : List Dec) (st : St) : NodeOut :=
  if !st.online then { st := st, effs := [], bc := [], decs := decs }
  else
    let b := (st.bdSeq + 1) % 256
    { st := { st with online := false, birthed := false, bdSeq := b }, effs := [.will b],
      bc := [.death], decs := decs }

/-- `Node::on_sparkplug_message` -/
def onNodeMessage (decs : List Dec) (kind : MsgKind) (p : Payload) (st : St) : NodeOut :=
  if kind ≠ .cmd then { st := st, effs := [], bc := [], decs := decs }
  else
    let rebirth := rebirthRequested p.metrics
    match p.ts with
    | none => { st := st, effs := [], bc := [], decs := decs }
    | some t =>
      let e := deliver none st.nodeMgr t p.metrics
      if !rebirth then { st := st, effs := e, bc := [], decs := decs }
      else
        let now := st.wall
        if now < st.last then
          -- `now - self.last_node_rebirth_request` panics
          { st := { st with dead := true }, effs := e ++ [.panic], bc := [], decs := decs }
        else if now - st.last < st.cooldown then { st := st, effs := e, bc := [], decs := decs }
        else if !st.birthed then
          -- `rebirth()` returns at once; the request time is stored all the same
          { st := { st with last := now }, effs := e, bc := [], decs := decs }
        else
          let r := nodeBirth decs .rebirth (some now) st
          let st2 : St := if r.st.parked.isSome then r.st else { r.st with last := now }
          { r with st := st2, effs := e ++ r.effs }

def nodeHandle (decs : List Dec) (st : St) : NodeIn → NodeOut
  | .online subOk => onOnline decs subOk st
  | .offline => onOffline decs st
  | .msg kind p => onNodeMessage decs kind p st

/-- the node task works through its inputs until it is idle, blocked or dead -/
def nodeRun : List Dec → St → List NodeIn → NodeOut
  | decs, st, [] => { st := st, effs := [], bc := [], decs := decs }
  | decs, st, i :: rest =>
    if st.dead then { st := st, effs := [], bc := [], decs := decs }
    else if st.parked.isSome then
      { st := { st with queue := st.queue ++ (i :: rest) }, effs := [], bc := [], decs := decs }
    else
      let r1 := nodeHandle decs st i
      let r2 := nodeRun r1.decs r1.st rest
      { r2 with effs := r1.effs ++ r2.effs, bc := r1.bc ++ r2.bc }

/-- the client resolves the parked NBIRTH: the blocked `node_birth` returns, then the node task
carries on with what queued up meanwhile -/
def resolveParked (decs : List Dec) (ok : Bool) (st : St) : NodeOut :=
  match st.parked with
  | none => { st := st, effs := [], bc := [], decs := decs }
  | some pk =>
    let st1 : St := { st with parked := none, birthed := ok, queue := [] }
    let st2 : St := match pk.setLast with
      | some now => { st1 with last := now }
      | none => st1
    let r := nodeRun decs st2 st.queue
    -- `birth_completed()` returns the epoch of the birth that was parked (still current: the
    -- task was blocked)
    { r with bc := (if ok then [DevMsg.birth pk.ty st.epoch] else []) ++ r.bc }

/-- stimuli of one step -/
inductive Op where
  | node (i : NodeIn)                -- an event for the node task
  | resolve (ok : Bool)              -- the parked NBIRTH is accepted / rejected
  | dev (d : Nat) (m : DevMsg)       -- enable / disable / DCMD for the device named `d`
  | unreg (d : Nat)                  -- unregister_device
  | setWall (w : Nat)
  | reg (target : Option Nat) (m : SMetric)   -- SimpleMetricManager::register_metric

/-- run the device tasks on the broadcast of a finished node phase -/
def finish (r : NodeOut) : St × List Eff :=
  let p := devPhase r.st.alias r.st.online r.st.birthed r.st.epoch r.bc r.st.seq r.st.devs
  ({ r.st with seq := p.1, devs := p.2.1 }, r.effs ++ p.2.2)

/-- a message addressed to device `d` only (`handle_device_message`, device handle requests):
unknown names are dropped -/
def devOne (alias : Option Nat → Bytes → Nat) (online birthed : Bool) (cur : Nat) (name : Nat)
    (m : DevMsg) : Nat → List Dev → Nat × List Dev × List Eff
  | seq, [] => (seq, [], [])
  | seq, d :: ds =>
    if d.name = name then
      let r := devHandle (alias (some d.name)) online birthed cur seq d m
      (r.1, r.2.1 :: ds, r.2.2)
    else
      let r := devOne alias online birthed cur name m seq ds
      (r.1, d :: r.2.1, r.2.2)

/-- `DeviceMap::remove_device`: the entry leaves the map, its task handles `Removed` and ends -/
def devRemove (alias : Option Nat → Bytes → Nat) (online birthed : Bool) (cur : Nat) (name : Nat) :
    Nat → List Dev → Nat × List Dev × List Eff
  | seq, [] => (seq, [], [])
  | seq, d :: ds =>
    if d.name = name then
      let r := devHandle (alias (some d.name)) online birthed cur seq d .removed
      (r.1, ds, r.2.2)
    else
      let r := devRemove alias online birthed cur name seq ds
      (r.1, d :: r.2.1, r.2.2)

def regDev (name : Nat) (m : SMetric) : List Dev → List Dev
  | [] => []
  | d :: ds => if d.name = name then { d with mgr := d.mgr.register m } :: ds else d :: regDev name m ds

def step (decs : List Dec) (st : St) : Op → St × List Eff
  | .node i => finish (nodeRun decs st [i])
  | .resolve ok => finish (resolveParked decs ok st)
  | .dev d m =>
    let r := devOne st.alias st.online st.birthed st.epoch d m st.seq st.devs
    ({ st with seq := r.1, devs := r.2.1 }, r.2.2)
  | .unreg d =>
    let r := devRemove st.alias st.online st.birthed st.epoch d st.seq st.devs
    ({ st with seq := r.1, devs := r.2.1 }, r.2.2)
  | .setWall w => ({ st with wall := w }, [])
  | .reg none m => ({ st with nodeMgr := st.nodeMgr.register m }, [])
  | .reg (some d) m => ({ st with devs := regDev d m st.devs }, [])

/-! ### T-table vocabulary: what the compiled crate does with a single metric -/

/-- what `MessageMetrics` yields for a one-metric payload, relative to the metric put in -/
inductive Shape where
  | skipped
  | null (byAlias : Bool)      -- delivered with the metric's own id and no value
  | value (byAlias : Bool)     -- delivered with the metric's own id and its own value
  | wrong                      -- delivered with another id or another value
  deriving DecidableEq, Repr

structure Cell where
  shape : Shape
  rebirth : Bool               -- a birthed node with cooldown 0 answers the one-metric NCMD with an NBIRTH
  deriving DecidableEq, Repr

def shapeOf (m : Metric) : List MessageMetric → Shape
  | [] => .skipped
  | [mm] =>
    let idOk : Option Bool :=
      match mm.id, m.alias, m.name with
      | .alias a, some a', _ => if a = a' then some true else none
      | .name n, none, some n' => if n = n' then some false else none
      | _, _, _ => none
    match idOk with
    | none => .wrong
    | some byAlias =>
      if mm.ts ≠ m.ts then .wrong
      else
        match mm.value with
        | none => .null byAlias
        | some v => if m.value = some v then .value byAlias else .wrong
  | _ => .wrong

def cellOf (m : Metric) : Cell :=
  { shape := shapeOf m (drainIter [m]), rebirth := rebirthRequested [m] }

end Srad.Cmd
