/-
Vocabulary used only to STATE the M16 theorems about `Model/SimpleMgr.lean`.
-/
import SradModel.Model.SimpleMgr
import SradModel.Model.BirthSpec

namespace Srad.SimpleMgr
open Srad.Birth Srad.Codec

/-- the id is taken in the initializer -/
def Used (bi : Init PV) : MetricId → Prop
  | .name n => n ∈ bi.names
  | .alias a => a ∈ bi.aliases

/-- the birth metric of entry `e` under the id `id` -/
def birthMetricOf (now : Nat) (e : Entry) (id : MetricId) : Metric PV :=
  { name := some e.name, alias := idAlias id, datatype := some (dtCode e.ty),
    timestamp := some now, isNull := none, value := some (.user (toProto e.ty e.value)) }

/-- the id a birth gives an entry: its name when it is not aliased, an alias otherwise -/
def IdShape (e : Entry) (id : MetricId) : Prop :=
  (e.useAlias = false ∧ id = .name e.name) ∨ (e.useAlias = true ∧ ∃ a, id = .alias a)

/-- `Entry` as the `Birth` model sees it -/
def toSimple (e : Entry) : SimpleMetric PV :=
  ⟨e.name, e.useAlias, dtCode e.ty, toProto e.ty e.value, e.hasCb⟩

/-- entry `p.1` after `metric.token = Some(token)` with the token's id `p.2` -/
def withToken (p : Entry × MetricId) : Entry := { p.1 with token := some p.2 }

/-- names are pairwise distinct; while the manager is alive, the tokens of the entries are
pairwise distinct, `cmd_lookup` has one entry per key, and its entries are exactly
(current token ↦ entry) for the entries that have a handler and a token -/
structure Inv {H} (s : St H) : Prop where
  names : (s.metrics.map (·.name)).Nodup
  tokens : s.dead = false → (s.metrics.filterMap (·.token)).Nodup
  keys : s.dead = false → (s.lookup.map (·.1)).Nodup
  lookup : s.dead = false → ∀ id n, (id, n) ∈ s.lookup ↔
    ∃ e ∈ s.metrics, e.name = n ∧ e.hasCb = true ∧ e.token = some id

/-- SPECIFICATION of the command path: the handler call a command metric causes — the entry that
has a handler and whose CURRENT token id is the command metric's id, called with the converted
value (`cmdCb`: no call when the value does not convert) -/
def route {H} (s : St H) (m : CmdMetric) : Option Invocation :=
  (s.metrics.find? (fun e => e.hasCb && decide (e.token = some m.id))).bind
    (fun e => cmdCb e m.value)

end Srad.SimpleMgr
