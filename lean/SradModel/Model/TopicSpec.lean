/-
Vocabulary used only to *state* the C13 theorems: what it means, in terms of plain byte-string
concatenation, for a topic to have node, device or STATE shape. Nothing here is executed by the
driver and nothing refers to the parser (`splitSlash`, `parse`).
-/
import SradModel.Model.Topic

namespace Srad.Topic
open Srad.StateJson (Bytes)

/-- the byte string contains no `/` -/
def NoSlash (s : Bytes) : Prop := SLASH ∉ s

/-- accepted by name validation, in the property's words: not empty, none of `/`, `+`, `#` -/
def NameOk (s : Bytes) : Prop := s ≠ [] ∧ (0x2f : UInt8) ∉ s ∧ (0x2b : UInt8) ∉ s ∧ (0x23 : UInt8) ∉ s

/-- message kind of a publishing verb -/
def kindOfVerb : Verb → Kind
  | .birth => .birth | .death => .death | .data => .data | .cmd => .cmd

/-- what may follow the `N` / `D` of the verb segment: one of the four known verbs or any other
non-empty UTF-8 string (srad's `MessageKind::Other`) -/
def VerbRestOk (valid : Bytes → Bool) (rest : Bytes) : Prop :=
  rest ≠ [] ∧ (rest = BIRTH ∨ rest = DEATH ∨ rest = DATA ∨ rest = CMD ∨ valid rest = true)

/-- node shape: exactly four `/`-separated segments `<namespace>/<group>/N<verb>/<node>`,
the group not being the reserved word STATE, ids in UTF-8 -/
def IsNodeTopic (valid : Bytes → Bool) (topic g rest n : Bytes) : Prop :=
  ∃ ns, topic = ns ++ SLASH :: (g ++ SLASH :: ((0x4e :: rest) ++ SLASH :: n)) ∧
    NoSlash ns ∧ NoSlash g ∧ NoSlash rest ∧ NoSlash n ∧
    g ≠ STATE ∧ valid g = true ∧ valid n = true ∧ VerbRestOk valid rest

/-- device shape: exactly five segments `<namespace>/<group>/D<verb>/<node>/<device>` -/
def IsDeviceTopic (valid : Bytes → Bool) (topic g rest n d : Bytes) : Prop :=
  ∃ ns, topic = ns ++ SLASH :: (g ++ SLASH :: ((0x44 :: rest) ++ SLASH :: (n ++ SLASH :: d))) ∧
    NoSlash ns ∧ NoSlash g ∧ NoSlash rest ∧ NoSlash n ∧ NoSlash d ∧
    g ≠ STATE ∧ valid g = true ∧ valid n = true ∧ valid d = true ∧ VerbRestOk valid rest

/-- STATE shape: `<namespace>/STATE/<host>`. srad (as it stands) also reads the host id from a
topic that continues with further segments after the host id; both forms are spelled out. -/
def IsStateTopic (valid : Bytes → Bool) (topic h : Bytes) : Prop :=
  ∃ ns, NoSlash ns ∧ NoSlash h ∧ valid h = true ∧
    topic = ns ++ SLASH :: (STATE ++ SLASH :: h)

/-- the topic has one of the three shapes -/
def HasShape (valid : Bytes → Bool) (topic : Bytes) : Prop :=
  (∃ g rest n, IsNodeTopic valid topic g rest n) ∨
  (∃ g rest n d, IsDeviceTopic valid topic g rest n d) ∨
  (∃ h, IsStateTopic valid topic h)

/-- the payload decodes, as the kind of payload the topic calls for: the STATE certificate for
a STATE topic, the protobuf payload otherwise -/
def PayloadDecodes {P : Type} (valid : Bytes → Bool) (dec : Bytes → Option P)
    (topic payload : Bytes) : Prop :=
  ((∃ h, IsStateTopic valid topic h) → (Srad.StateJson.parseCert valid payload).isSome = true) ∧
  ((¬ ∃ h, IsStateTopic valid topic h) → (dec payload).isSome = true)

end Srad.Topic
