/-
M10-LTS — the host application's event loop (`srad-app/src/eventloop.rs`) as a labelled transition
system at await / client-hand-over granularity. `Model/HostLoop` runs every input to quiescence;
here nothing waits:

* the **event-loop task** (`loop { app_el.poll().await }`): one step = `select!` takes one ready
  branch — an event of the client's event loop (`handle_event`, synchronous, including
  `task::spawn`) or a `Shutdown` from the capacity-1 channel — or, inside
  `poll_until_offline_with_timeout`, one event of the drain or the 1 s timeout;
* one **session task** per accepted Online (`handle_online`: `subscribe_many` → `publish_state_message
  (Online{timestamp})` → `published_online_state := true`) and one **answer task** per answered own
  `{online:false}` STATE (one `publish_state_message`): one client call per step; the client's
  decision for the call (accept / reject / park = back-pressure) is a parameter of the step, a
  parked call is resolved by a stimulus; the results are ignored (`_ = client…`);
* one **cancel task** per `AppClient::cancel()` (`try_publish_state_message(Offline{timestamp()})`,
  `sender.send(Shutdown)` — waits while the slot is taken —, `disconnect`). They are anonymous:
  the state counts how many stand at each of the three points.

Tasks are never removed from `tasks` (a finished one has `pc = done`): the index is the task id.
The pure parts (topics, filters, payload rendering, configuration) are those of `Model/HostLoop`;
the LTS state holds no strings, `cfg`/`host` only matter for rendering (driver, refinement).

Clocks: `now` is the `timestamp()` reading (mock clock, set by a stimulus); `vt` is tokio's
virtual time in ms, `horizon` the time up to which timers may fire before the harness wakes up
again (`> vt` only while the harness sleeps in an `adv`).

Observations are what `harness/src/mock.rs` records at the trait objects (`will`, `sub`,
`stateOn`, `stateOff`, `disc`, `polled`, `resolved`) and what `poll` returns (`event`), plus echoes
of stimuli (`clock`, `cancelReq`) and three *ghost* observations of moments no trait object sees:
`spawn` (a task is spawned with its captured timestamp), `flagSet` (the store to
`published_online_state`) and `dropped` (`poll_until_offline` discards an event). Call
observations carry the task id as a ghost field. The driver erases ghosts before comparing.

No imports except `Model/HostLoop`: linked into `srad_model`.
-/
import SradModel.Model.HostLoop

namespace Srad.HostLoopLts

/-- the client's decision for a call handed over -/
inductive Dec where | acc | rej | park
  deriving DecidableEq, Hashable, Repr

/-- `srad_client::Event` as far as the loop distinguishes: Online, Offline, a STATE message (for
the own host id?, `online` flag; its timestamp is ignored by the code), a Node/Device message that
becomes an `AppEvent` (`node`), anything that `handle_event` maps to `None` (`junk`) -/
inductive Ev where
  | online | offline
  | state (own : Bool) (on : Bool)
  | node | junk
  deriving DecidableEq, Hashable, Repr

/-- what `poll` returns -/
inductive Ret where
  | online | offline | cancelled | node
  deriving DecidableEq, Hashable, Repr

inductive Pc where
  | subscribe
  | subParked (id : Nat) (res : Option Bool)     -- `subscribe_many` parked; `res` once resolved
  | publish
  | pubParked (id : Nat) (res : Option Bool)
  | setFlag
  | done
  deriving DecidableEq, Hashable, Repr

/-- a spawned task: `session = true` for the task of `handle_online`, `false` for the republished
birth answering an own `{online:false}`; `ts` = `self.will_timestamp` captured at spawn time -/
structure Task where
  session : Bool
  ts : Nat
  pc : Pc
  deriving DecidableEq, Hashable, Repr

inductive Obs where
  | clock (n : Nat)
  | will (ts : Nat)
  | sub (tid id : Nat) (dec : Dec)
  | stateOn (tid id ts : Nat) (dec : Dec)         -- `publish_state_message(Online{ts})`, blocking
  | stateOff (id ts : Nat) (dec : Dec)            -- `try_publish_state_message(Offline{ts})`
  | disc (id : Nat) (dec : Dec)
  | resolved (id : Nat) (ok : Bool)
  | polled (e : Ev)
  | event (r : Ret)
  | cancelReq
  | spawn (tid : Nat) (session : Bool) (ts : Nat)   -- ghost
  | flagSet (tid : Nat)                             -- ghost
  | dropped                                         -- ghost
  deriving DecidableEq, Hashable, Repr

/-- ghost observations are invisible at the trait objects -/
def Obs.ghost : Obs → Bool
  | .spawn .. | .flagSet _ | .dropped | .clock _ | .cancelReq => true
  | _ => false

structure St where
  online : Bool := false
  willTs : Nat := 0
  flag : Bool := false              -- `AppState::published_online_state`
  drain : Option Nat := none        -- `some deadline`: inside `poll_until_offline_with_timeout`
  shut : Bool := false              -- a `Shutdown` sits in the capacity-1 channel
  inbox : List Ev := []             -- events the client's event loop will return from `poll`
  tasks : List Task := []
  cStart : Nat := 0                 -- cancel tasks about to publish the offline STATE
  cSend : Nat := 0                  -- … about to `send(Shutdown)`
  cDisc : Nat := 0                  -- … about to `disconnect`
  nCalls : Nat := 0                 -- client calls handed over so far (the next call id)
  now : Nat := 0
  vt : Nat := 0
  horizon : Nat := 0
  deriving DecidableEq, Hashable, Repr

/-- `AppEventLoop::new` at clock reading `now0` (valid host id; the panic is `HostLoop.new`'s) -/
def init (now0 : Nat) : St := { willTs := now0, now := now0 }

/-- what construction shows: the clock, then `update_last_will` -/
def initObs (now0 : Nat) : List Obs := [.clock now0, .will now0]

/-- a `try_` call cannot wait: a full queue is a rejection -/
def tryDec : Dec → Dec
  | .park => .rej
  | d => d

/-! ### the event-loop task -/

/-- `handle_online` -/
def handleOnline (s : St) : St × List Obs :=
  if s.online then (s, [])
  else
    ({ s with online := true, tasks := s.tasks ++ [{ session := true, ts := s.willTs, pc := .subscribe }] },
     [.spawn s.tasks.length true s.willTs, .event .online])

/-- `handle_offline` (`update_last_will` inlined) -/
def handleOffline (s : St) : St × List Obs :=
  if !s.online then (s, [])
  else ({ s with online := false, flag := false, willTs := s.now }, [.will s.now, .event .offline])

/-- `handle_event` -/
def handleEvent (s : St) : Ev → St × List Obs
  | .online => handleOnline s
  | .offline => handleOffline s
  | .state own on =>
    if s.flag && own && !on then
      ({ s with tasks := s.tasks ++ [{ session := false, ts := s.willTs, pc := .publish }] },
       [.spawn s.tasks.length false s.willTs])
    else (s, [])
  | .node => (s, [.event .node])
  | .junk => (s, [])

/-- the event branch: `eventloop.poll()` returns the next event -/
def loopEvent (s : St) : Option (St × List Obs) :=
  match s.inbox with
  | [] => none
  | e :: rest =>
    let s := { s with inbox := rest }
    match s.drain with
    | none =>
      let (s1, o) := handleEvent s e
      some (s1, .polled e :: o)
    | some _ =>
      -- `poll_until_offline`: `while self.online { if Offline == poll() { handle_offline() } }`
      if e = .offline then
        -- `handle_offline()`; the value it returns is dropped; `while self.online` is re-evaluated
        if s.online then
          some ({ s with online := false, flag := false, willTs := s.now, drain := none },
                [.polled e, .will s.now, .event .cancelled])
        else some ({ s with drain := none }, [.polled e, .event .cancelled])
      else some (s, [.polled e, .dropped])

/-- the shutdown branch of `select!` (only polled outside the drain) -/
def loopShutdown (s : St) : Option (St × List Obs) :=
  if s.shut && s.drain.isNone then
    let s := { s with shut := false }
    if s.online then some ({ s with drain := some (s.vt + 1000) }, [])
    else some (s, [.event .cancelled])       -- `while self.online` exits at once
  else none

/-- the 1 s timeout around `poll_until_offline` elapses -/
def loopTimeout (s : St) : Option (St × List Obs) :=
  match s.drain with
  | some dl =>
    if dl ≤ s.horizon then some ({ s with drain := none, vt := max s.vt dl }, [.event .cancelled])
    else none
  | none => none

/-! ### session / answer tasks -/

def setPc (s : St) (i : Nat) (t : Task) (pc : Pc) : St :=
  { s with tasks := s.tasks.set i { t with pc := pc } }

/-- where a task goes once its birth publish has returned -/
def afterPublish (t : Task) : Pc := if t.session then .setFlag else .done

def stepTask (s : St) (i : Nat) (dec : Dec) : Option (St × List Obs) :=
  match s.tasks[i]? with
  | none => none
  | some t =>
    match t.pc with
    | .subscribe =>
      let id := s.nCalls
      let s := { s with nCalls := s.nCalls + 1 }
      some (setPc s i t (match dec with | .park => .subParked id none | _ => .publish), [.sub i id dec])
    | .subParked _ (some _) => some (setPc s i t .publish, [])
    | .subParked _ none => none
    | .publish =>
      let id := s.nCalls
      let s := { s with nCalls := s.nCalls + 1 }
      some (setPc s i t (match dec with | .park => .pubParked id none | _ => afterPublish t),
            [.stateOn i id t.ts dec])
    | .pubParked _ (some _) => some (setPc s i t (afterPublish t), [])
    | .pubParked _ none => none
    | .setFlag => some ({ setPc s i t .done with flag := true }, [.flagSet i])
    | .done => none

/-! ### cancel tasks -/

def cancelStart (s : St) (dec : Dec) : Option (St × List Obs) :=
  if s.cStart = 0 then none
  else some ({ s with cStart := s.cStart - 1, cSend := s.cSend + 1, nCalls := s.nCalls + 1 },
             [.stateOff s.nCalls s.now (tryDec dec)])

def cancelSend (s : St) : Option (St × List Obs) :=
  if s.cSend = 0 || s.shut then none
  else some ({ s with cSend := s.cSend - 1, cDisc := s.cDisc + 1, shut := true }, [])

def cancelDisc (s : St) (dec : Dec) : Option (St × List Obs) :=
  if s.cDisc = 0 then none
  else some ({ s with cDisc := s.cDisc - 1, nCalls := s.nCalls + 1 }, [.disc s.nCalls (tryDec dec)])

/-! ### stimuli -/

inductive Stim where
  | ev (e : Ev)                    -- the client's event loop has an event ready
  | clock (n : Nat)                -- the mock clock is set
  | resolve (id : Nat) (ok : Bool) -- the client resolves a parked call
  | cancel                         -- `AppClient::cancel()` is called (spawned)
  | adv (ms : Nat)                 -- the harness sleeps `ms` of virtual time
  | settle                         -- the harness wakes up (quiescence barrier, 1 ms)
  deriving DecidableEq, Hashable, Repr

def resolvePc (id : Nat) (ok : Bool) : Pc → Pc
  | .subParked j none => if j = id then .subParked j (some ok) else .subParked j none
  | .pubParked j none => if j = id then .pubParked j (some ok) else .pubParked j none
  | pc => pc

def isParkedOn (id : Nat) : Pc → Bool
  | .subParked j none => j = id
  | .pubParked j none => j = id
  | _ => false

def applyStim (s : St) : Stim → St × List Obs
  | .ev e => ({ s with inbox := s.inbox ++ [e] }, [])
  | .clock n => ({ s with now := n }, [.clock n])
  | .resolve id ok =>
    if s.tasks.any (fun t => isParkedOn id t.pc) then
      ({ s with tasks := s.tasks.map fun t => { t with pc := resolvePc id ok t.pc } }, [.resolved id ok])
    else (s, [])
  | .cancel => ({ s with cStart := s.cStart + 1 }, [.cancelReq])
  | .adv ms => ({ s with horizon := s.horizon + ms }, [])
  | .settle => ({ s with vt := s.horizon + 1, horizon := s.horizon + 1 }, [])

/-! ### tasks and the global step relation -/

inductive Tk where
  | loopEvent | loopShutdown | loopTimeout
  | task (i : Nat)
  | cancelStart | cancelSend | cancelDisc
  deriving DecidableEq, Hashable, Repr

/-- one step of task `t`; `none` = not enabled. `dec` is consulted only if the step hands a call
over. -/
def step (s : St) (t : Tk) (dec : Dec) : Option (St × List Obs) :=
  match t with
  | .loopEvent => loopEvent s
  | .loopShutdown => loopShutdown s
  | .loopTimeout => loopTimeout s
  | .task i => stepTask s i dec
  | .cancelStart => cancelStart s dec
  | .cancelSend => cancelSend s
  | .cancelDisc => cancelDisc s dec

/-- every task that exists in a state (enabled or not) -/
def allTks (s : St) : List Tk :=
  [.loopEvent, .loopShutdown, .loopTimeout, .cancelStart, .cancelSend, .cancelDisc] ++
    (List.range s.tasks.length).map Tk.task

/-- nothing can move -/
def quiescent (s : St) : Bool := (allTks s).all fun t => (step s t .acc).isNone

/-- one action of an execution -/
inductive Act where
  | stim (x : Stim)
  | task (t : Tk) (dec : Dec)
  deriving DecidableEq, Repr

def runAct (s : St) : Act → Option (St × List Obs)
  | .stim x => some (applyStim s x)
  | .task t dec => step s t dec

/-- run a list of actions; `none` if some action is not enabled -/
def runActs (s : St) : List Act → Option (St × List Obs)
  | [] => some (s, [])
  | a :: as =>
    match runAct s a with
    | none => none
    | some (s1, o1) =>
      match runActs s1 as with
      | none => none
      | some (s2, o2) => some (s2, o1 ++ o2)

/-- `s` is reachable with observation trace `tr`: construction at clock reading `now0`, then any
interleaving of stimuli and task steps with any client decisions -/
def Reaches (s : St) (tr : List Obs) : Prop :=
  ∃ now0 acts o, runActs (init now0) acts = some (s, o) ∧ tr = initObs now0 ++ o

end Srad.HostLoopLts
