/-
M6 (part 2) — topics: builders (srad-types/src/topic.rs), name validation
(srad-types/src/utils.rs) and its use by the constructors (srad-eon/src/node.rs,
srad-app/src/eventloop.rs), and the receive path `topic_and_payload_to_event`
(srad-client/src/utils.rs) producing `Event`s (srad-client/src/types.rs).

Conventions (DESIGN.md section 5): bytes are `List UInt8`; a Rust `String` is a byte list for
which `valid` (Rust: `String::from_utf8(..).is_ok()`, a parameter) holds; the protobuf codec
(prost, external) is the parameter `dec : Bytes → Option P`; every Rust operation that can
panic (`message_part[0]`, the explicit `panic!` of `AppEventLoop::new`) is an explicit outcome.
The STATE JSON reader is `Srad.StateJson.parseCert`.
No imports except Model files: linked into `srad_model`.
-/
import SradModel.Model.StateJson

namespace Srad.Topic
open Srad.StateJson (Bytes parseCert)

/-! ### constants (srad-types/src/constants.rs) -/

def SLASH : UInt8 := 0x2f
def SPBV10 : Bytes := [0x73, 0x70, 0x42, 0x76, 0x31, 0x2e, 0x30]
def STATE : Bytes := [0x53, 0x54, 0x41, 0x54, 0x45]
def NBIRTH : Bytes := [0x4e, 0x42, 0x49, 0x52, 0x54, 0x48]
def NDEATH : Bytes := [0x4e, 0x44, 0x45, 0x41, 0x54, 0x48]
def NDATA : Bytes := [0x4e, 0x44, 0x41, 0x54, 0x41]
def NCMD : Bytes := [0x4e, 0x43, 0x4d, 0x44]
def DBIRTH : Bytes := [0x44, 0x42, 0x49, 0x52, 0x54, 0x48]
def DDEATH : Bytes := [0x44, 0x44, 0x45, 0x41, 0x54, 0x48]
def DDATA : Bytes := [0x44, 0x44, 0x41, 0x54, 0x41]
def DCMD : Bytes := [0x44, 0x43, 0x4d, 0x44]
/-- the byte-string patterns of `process_topic_message` -/
def BIRTH : Bytes := [0x42, 0x49, 0x52, 0x54, 0x48]
def DEATH : Bytes := [0x44, 0x45, 0x41, 0x54, 0x48]
def DATA : Bytes := [0x44, 0x41, 0x54, 0x41]
def CMD : Bytes := [0x43, 0x4d, 0x44]

/-! ### builders (srad-types/src/topic.rs) -/

/-- the four message types of `NodeMessage` / `DeviceMessage` -/
inductive Verb where
  | birth | death | data | cmd
  deriving DecidableEq, Repr

/-- `NodeMessage::as_str` -/
def nodeMessageStr : Verb → Bytes
  | .birth => NBIRTH | .death => NDEATH | .data => NDATA | .cmd => NCMD

/-- `DeviceMessage::as_str` -/
def deviceMessageStr : Verb → Bytes
  | .birth => DBIRTH | .death => DDEATH | .data => DDATA | .cmd => DCMD

/-- `node_topic_raw`: `format!("{SPBV01}/{group_id}/{message_type}/{node_id}")` -/
def nodeTopicRaw (g mt n : Bytes) : Bytes := SPBV10 ++ SLASH :: (g ++ SLASH :: (mt ++ SLASH :: n))

/-- `NodeTopic::new(..).topic` -/
def nodeTopic (g : Bytes) (v : Verb) (n : Bytes) : Bytes := nodeTopicRaw g (nodeMessageStr v) n

/-- `DeviceTopic::new(..).topic` -/
def deviceTopic (g : Bytes) (v : Verb) (n d : Bytes) : Bytes :=
  SPBV10 ++ SLASH :: (g ++ SLASH :: (deviceMessageStr v ++ SLASH :: (n ++ SLASH :: d)))

/-- `state_host_topic` (`StateTopic::new_host`, `LastWill::new_app`) -/
def stateHostTopic (h : Bytes) : Bytes := SPBV10 ++ SLASH :: (STATE ++ SLASH :: h)

inductive QoS where
  | atMostOnce | atLeastOnce
  deriving DecidableEq, Repr

/-- `NodeTopic::get_publish_quality_retain` -/
def nodeQosRetain : Verb → QoS × Bool
  | .birth => (.atMostOnce, false)
  | .data => (.atMostOnce, false)
  | .cmd => (.atMostOnce, false)
  | .death => (.atLeastOnce, false)

/-- `DeviceTopic::get_publish_quality_retain` -/
def deviceQosRetain : Verb → QoS × Bool
  | .birth => (.atLeastOnce, false)
  | .data => (.atMostOnce, false)
  | .cmd => (.atMostOnce, false)
  | .death => (.atLeastOnce, false)

/-- `StatePayload::get_publish_quality_retain` (both variants) -/
def stateQosRetain : QoS × Bool := (.atLeastOnce, true)

/-! ### name validation (srad-types/src/utils.rs) and the constructors -/

/-- `matches!(c, '+' | '/' | '#')`. The Rust iterates `chars()`; on valid UTF-8 these three
ASCII characters occur exactly where their bytes occur. -/
def isForbidden (c : UInt8) : Bool := c == 0x2b || c == 0x2f || c == 0x23

/-- the `for c in name.chars()` loop: `true` = fell through to `Ok(())` -/
def validateLoop : Bytes → Bool
  | [] => true
  | c :: t => if isForbidden c then false else validateLoop t

/-- `validate_name(name).is_ok()` -/
def validateName (name : Bytes) : Bool :=
  if name.isEmpty then false else validateLoop name

/-- outcome of a constructor -/
inductive Ctor where
  | ok | err | panic
  deriving DecidableEq, Repr

/-- `EoN::new_from_builder` up to the point where the ids are accepted (`None` = the builder
method was never called) -/
def eonBuild (group node : Option Bytes) : Ctor :=
  match group with
  | none => .err
  | some g =>
    match node with
    | none => .err
    | some n => if !validateName g then .err else if !validateName n then .err else .ok

/-- `NodeHandle::register_device` on a node whose registered device names are `existing` -/
def registerDevice (existing : List Bytes) (name : Bytes) : Ctor :=
  if !validateName name then .err
  else if existing.contains name then .err
  else .ok

/-- `AppEventLoop::new`: an invalid host id is a `panic!` -/
def appNew (host : Bytes) : Ctor := if validateName host then .ok else .panic

/-! ### events (srad-client/src/types.rs) -/

/-- `MessageError`, by variant -/
inductive Reason where
  | topic    -- InvalidSparkplugTopic
  | utf8     -- TopicUtf8Error
  | decode   -- DecodePayloadError
  | json     -- StatePayloadJsonDecodeError
  deriving DecidableEq, Repr

inductive Kind where
  | birth | death | data | cmd
  | other (s : Bytes)
  deriving DecidableEq, Repr

inductive Event (P : Type) where
  | node (group node : Bytes) (kind : Kind) (payload : P)
  | device (group node device : Bytes) (kind : Kind) (payload : P)
  | state (host : Bytes) (online : Bool) (timestamp : Nat)
  | invalid (reason : Reason) (topic payload : Bytes)
  | panic
  deriving Repr

/-- an event without its ids and payload (rows of the generated `TopicTable`) -/
inductive EvClass where
  | node (k : Kind) | device (k : Kind) | state
  | invalid (r : Reason)      -- an invalid-publish event carrying the input bytes
  | panic
  deriving DecidableEq, Repr

/-! ### the receive path (srad-client/src/utils.rs) -/

/-- Rust `slice.split(|c| *c == b'/')`: always at least one piece -/
def splitSlash : Bytes → List Bytes
  | [] => [[]]
  | c :: t =>
    if c = SLASH then [] :: splitSlash t
    else
      match splitSlash t with
      | s :: r => (c :: s) :: r
      | [] => [[c]]

inductive Producer where
  | node | device
  deriving DecidableEq, Repr

/-- the `match &message_part[1..]` table of `process_topic_message` -/
def kindOfRest (rest : Bytes) : Kind :=
  if rest = BIRTH then .birth
  else if rest = DEATH then .death
  else if rest = DATA then .data
  else if rest = CMD then .cmd
  else .other rest

inductive PTM (P : Type) where
  | ok (producer : Producer) (kind : Kind) (payload : P)
  | err (r : Reason)
  | panic

/-- `process_topic_message`: length check, producer from the first byte (a slice index),
payload decode, then the message kind (an unknown one must be UTF-8) -/
def processTopicMessage {P : Type} (valid : Bytes → Bool) (dec : Bytes → Option P)
    (mp payload : Bytes) : PTM P :=
  if mp.length < 2 then .err .topic
  else
    match mp[0]? with
    | none => .panic
    | some b =>
      let producer : Option Producer :=
        if b = 0x4e then some .node else if b = 0x44 then some .device else none
      match producer with
      | none => .err .topic
      | some pr =>
        match dec payload with
        | none => .err .decode
        | some p =>
          let rest := mp.drop 1
          match kindOfRest rest with
          | .other s => if valid s then .ok pr (.other s) p else .err .utf8
          | k => .ok pr k p

/-- the body of `topic_and_payload_to_event` after `let mut iter = topic.split(..)`: `segs` is
what the iterator will yield, consumed from the front by the successive `iter.next()` calls -/
def parseSegs {P : Type} (valid : Bytes → Bool) (dec : Bytes → Option P) (topic payload : Bytes)
    (segs : List Bytes) : Event P :=
  let inv (r : Reason) : Event P := .invalid r topic payload
  match segs with
  | [] => inv .topic                                   -- `spbv10.is_none()`
  | _ns :: it1 =>
    match it1 with
    | [] => inv .topic
    | sg :: it2 =>
      if sg = STATE then
        match it2 with
        | [] => inv .topic
        | h :: rest =>
          if !valid h then inv .utf8
          else if !rest.isEmpty then inv .topic            -- `iter.next().is_some()`
          else
            match parseCert valid payload with
            | some (online, ts) => .state h online ts
            | none => inv .json
      else if !valid sg then inv .utf8
      else
        match it2 with
        | [] => inv .topic
        | mp :: it3 =>
          match processTopicMessage valid dec mp payload with
          | .panic => .panic
          | .err r => inv r
          | .ok producer kind p =>
            match it3 with
            | [] => inv .topic
            | n :: it4 =>
              if !valid n then inv .utf8
              else
                match producer with
                | .node =>
                  if !it4.isEmpty then inv .topic
                  else .node sg n kind p
                | .device =>
                  match it4 with
                  | [] => inv .topic
                  | d :: it5 =>
                    if !valid d then inv .utf8
                    else if !it5.isEmpty then inv .topic
                    else .device sg n d kind p

/-- `topic_and_payload_to_event` -/
def parse {P : Type} (valid : Bytes → Bool) (dec : Bytes → Option P) (topic payload : Bytes) :
    Event P :=
  parseSegs valid dec topic payload (splitSlash topic)

/-- class of `parse topic payload`; an invalid event that does not carry the input bytes has
no class of its own (`panic`) -/
def parseClass {P : Type} (valid : Bytes → Bool) (dec : Bytes → Option P) (topic payload : Bytes) :
    EvClass :=
  match parse valid dec topic payload with
  | .node _ _ k _ => .node k
  | .device _ _ _ k _ => .device k
  | .state _ _ _ => .state
  | .invalid r t p => if t = topic ∧ p = payload then .invalid r else .panic
  | .panic => .panic

end Srad.Topic
