/-
Vocabulary used only to STATE the C17 theorems about the derive model (`Model/Derive.lean`):
well-formed schemas, well-typed values, field-wise agreement, declared names, foreign
instances. Nothing here is executed by the driver.
-/
import SradModel.Model.Derive

namespace Srad.Derive
open Srad.Codec

deriving instance DecidableEq for Except

/-- wire names of the non-skipped fields, in declaration order (metrics and parameters share
one namespace: the macro's `unique_names` set) -/
def names : Fields → List Name
  | .nil => []
  | .scalar w skip _ _ rest => if skip then names rest else w :: names rest
  | .nested w skip _ _ _ _ rest => if skip then names rest else w :: names rest

/-- what the macro enforces at compile time ("Duplicate name provided"): the wire names of the
non-skipped fields are pairwise different — at every level of nesting -/
def wf : Fields → Bool
  | .nil => true
  | .scalar w skip _ _ rest => (skip || !(names rest).contains w) && wf rest
  | .nested w skip _ _ sub _ rest => (skip || (!(names rest).contains w && wf sub)) && wf rest

/-- a scalar cell is a value of its field's Rust type: `T` always holds a value, and the bit
pattern is in range -/
def wtCell (k : SKind) : Option SV → Bool
  | some x => k.ty.holds x
  | none => k.isOpt

/-- the value is a value of the struct (what the Rust type system guarantees); a skipped field
may have any type, only its cell must be there -/
def wt : Fields → Vals → Bool
  | .nil, .nil => true
  | .scalar _ skip k _ rest, .s v vs => (skip || wtCell k v) && wt rest vs
  | .nested _ skip _ _ sub _ rest, .nest sv vs => (skip || wt sub sv) && wt rest vs
  | _, _ => false

/-- `b` and `a` agree on all template fields: Rust `==` on every non-skipped scalar / option
field, recursively on every non-skipped nested template -/
def agree : Fields → Vals → Vals → Bool
  | .nil, _, _ => true
  | .scalar _ skip k _ rest, .s vb bs, .s va as => (skip || optEq k.ty vb va) && agree rest bs as
  | .nested _ skip _ _ sub _ rest, .nest sb bs, .nest sa as =>
    (skip || agree sub sb sa) && agree rest bs as
  | _, _, _ => true

/-- `x` and `y` are identical (same bits) on every non-skipped field, recursively -/
def same : Fields → Vals → Vals → Bool
  | .nil, .nil, .nil => true
  | .scalar _ skip _ _ rest, .s x xs, .s y ys => (skip || x == y) && same rest xs ys
  | .nested _ skip _ _ sub _ rest, .nest x xs, .nest y ys => (skip || same sub x y) && same rest xs ys
  | _, _, _ => false

/-- `x` and `y` are identical on every SKIPPED field of the top level (and inside non-skipped
nested templates) -/
def sameSkipped : Fields → Vals → Vals → Bool
  | .nil, .nil, .nil => true
  | .scalar _ skip _ _ rest, .s x xs, .s y ys => (!skip || x == y) && sameSkipped rest xs ys
  | .nested _ skip _ _ sub _ rest, .nest x xs, .nest y ys =>
    (if skip then x == y else sameSkipped sub x y) && sameSkipped rest xs ys
  | _, _, _ => false

/-- `a'` is `a` after receiving the difference of `b`, field by field and without appeal to
reflexivity of `==`: a skipped field is untouched; a template field is either identical to
`b`'s, or untouched and equal (`==`) to `b`'s; nested templates recursively -/
def patched : Fields → Vals → Vals → Vals → Bool
  | .nil, .nil, .nil, .nil => true
  | .scalar _ skip k _ rest, .s va as, .s vb bs, .s v' as' =>
    (if skip then v' == va else v' == vb || (v' == va && optEq k.ty vb va)) && patched rest as bs as'
  | .nested _ skip _ _ sub _ rest, .nest sa as, .nest sb bs, .nest s' as' =>
    (if skip then s' == sa else (s' == sa && agree sub sb sa) || patched sub sa sb s')
      && patched rest as bs as'
  | _, _, _, _ => false

/-- (name, datatype) of the metrics the struct declares: its non-skipped non-parameter fields -/
def metricDecls : Fields → List (Option Name × Option Nat)
  | .nil => []
  | .scalar w skip k _ rest =>
    if !skip && !k.isParam then (some w, some (dtOf k.ty).code) :: metricDecls rest
    else metricDecls rest
  | .nested w skip _ _ _ _ rest =>
    if !skip then (some w, some templateCode) :: metricDecls rest else metricDecls rest

/-- (name, datatype) of the parameters the struct declares -/
def paramDecls : Fields → List (Option Name × Option Nat)
  | .nil => []
  | .scalar w skip k _ rest =>
    if !skip && k.isParam then (some w, some (dtOf k.ty).code) :: paramDecls rest
    else paramDecls rest
  | .nested _ _ _ _ _ _ rest => paramDecls rest

/-- (name, datatype) of each metric of a wire list -/
def WMs.decls : WMs → List (Option Name × Option Nat)
  | .nil => []
  | .val n dt _ rest => (n, dt) :: rest.decls
  | .templ n dt _ _ _ _ _ rest => (n, dt) :: rest.decls

def WP.decl (p : WP) : Option Name × Option Nat := (p.name, p.ty)

/-- the non-skipped metric field with wire name `n` exists and `b`, `a` differ on it -/
def metricDiffers : Fields → Vals → Vals → Name → Bool
  | .scalar w skip k _ rest, .s vb bs, .s va as, n =>
    (!skip && !k.isParam && w == n && !optEq k.ty vb va) || metricDiffers rest bs as n
  | .nested w skip _ _ sub _ rest, .nest sb bs, .nest sa as, n =>
    (!skip && w == n && !agree sub sb sa) || metricDiffers rest bs as n
  | _, _, _, _ => false

/-- the non-skipped parameter field with wire name `n` exists and `b`, `a` differ on it -/
def paramDiffers : Fields → Vals → Vals → Name → Bool
  | .scalar w skip k _ rest, .s vb bs, .s va as, n =>
    (!skip && k.isParam && w == n && !optEq k.ty vb va) || paramDiffers rest bs as n
  | .nested _ _ _ _ _ _ rest, .nest _ bs, .nest _ as, n => paramDiffers rest bs as n
  | _, _, _, _ => false

/-- the struct has a parameter arm for that name -/
def hasParamArm : Fields → Name → Bool
  | .nil, _ => false
  | .scalar w skip k _ rest, n => (!skip && k.isParam && w == n) || hasParamArm rest n
  | .nested _ _ _ _ _ _ rest, n => hasParamArm rest n

/-- the metric arm for that name: `none` no such metric; `some none` a scalar / option field;
`some (some (ref, ver, sub))` a nested template with that metadata -/
def metricArm : Fields → Name → Option (Option (Name × Option Name × Fields))
  | .nil, _ => none
  | .scalar w skip k _ rest, n =>
    if !skip && !k.isParam && w == n then some none else metricArm rest n
  | .nested w skip ref ver sub _ rest, n =>
    if !skip && w == n then some (some (ref, ver, sub)) else metricArm rest n

/-- some parameter of the list is named and unknown to the struct -/
def foreignPs (fs : Fields) : List WP → Bool
  | [] => false
  | p :: ps => (match p.name with | some n => !hasParamArm fs n | none => false) || foreignPs fs ps

/-- some metric of the list is named and unknown to the struct, or is a template instance sent
to a nested template field that names another template, another version, or (recursively) a
field unknown to the nested template -/
def foreignMs : Fields → WMs → Bool
  | _, .nil => false
  | fs, .val name _ _ rest =>
    (match name with | some n => (metricArm fs n).isNone | none => false) || foreignMs fs rest
  | fs, .templ name _ _ ref ver sub ps rest =>
    (match name with
     | none => false
     | some n =>
       match metricArm fs n with
       | none => true
       | some none => false
       | some (some (fref, fver, ffs)) =>
         match ref with
         | none => false
         | some r => r != fref || ver != fver || foreignPs ffs ps || foreignMs ffs sub)
    || foreignMs fs rest

/-- the instance names another template, another version, or an unknown field (at any depth) -/
def foreign (σ : Schema) (i : TInst) : Bool :=
  i.ref != σ.ref || i.ver != σ.ver || foreignPs σ.fields i.params || foreignMs σ.fields i.metrics

end Srad.Derive
