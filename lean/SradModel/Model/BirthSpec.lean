/-
Vocabulary used only to STATE the C11 theorems about `SradModel/Model/Birth.lean`: what a birth
certificate has to look like, said without reference to the initializer's bookkeeping
(`metric_names`, `metric_aliases`, the collision loop).
-/
import SradModel.Model.Birth

namespace Srad.Birth

variable {U : Type}

/-! ### what a request asks for -/

def Req.name (r : Req U) : Name := r.details.name

/-- the value a request supplies for the birth -/
def Req.value : Req U → Option (Val U)
  | .metric _ v => v.map .user
  | .template _ i => i.map fun (t, u) => .inst t u

/-- datatype Template through `register_metric` ("the wrong API") -/
def WrongApi (r : Req U) : Prop := ∃ d v, r = .metric d v ∧ d.dt = dtTemplate

/-- a template instance whose `template_ref` is not a key of the registry -/
def Unregistered (reg : List Name) (r : Req U) : Prop :=
  ∃ d t u, r = .template d (some (t, u)) ∧ t ∉ reg

/-- `register_template_metric` with details that carry no value (cannot be built for a type
that is only a `Template`; reachable for a type that also implements `traits::MetricValue`) -/
def NoInstance (r : Req U) : Prop := ∃ d, r = .template d none

instance (r : Req U) : Decidable (WrongApi r) :=
  match r with
  | .metric d v =>
    if h : d.dt = dtTemplate then isTrue ⟨d, v, rfl, h⟩
    else isFalse (by rintro ⟨d', v', h1, h2⟩; cases h1; exact h h2)
  | .template _ _ => isFalse (by rintro ⟨_, _, h1, _⟩; cases h1)

instance (reg : List Name) (r : Req U) : Decidable (Unregistered reg r) :=
  match r with
  | .metric _ _ => isFalse (by rintro ⟨_, _, _, h1, _⟩; cases h1)
  | .template _ none => isFalse (by rintro ⟨_, _, _, h1, _⟩; cases h1)
  | .template d (some (t, u)) =>
    if h : t ∈ reg then isFalse (by rintro ⟨_, _, _, h1, h2⟩; cases h1; exact h2 h)
    else isTrue ⟨d, t, u, rfl, h⟩

instance (r : Req U) : Decidable (NoInstance r) :=
  match r with
  | .metric _ _ => isFalse (by rintro ⟨_, h1⟩; cases h1)
  | .template _ (some _) => isFalse (by rintro ⟨_, h1⟩; cases h1)
  | .template d none => isTrue ⟨d, rfl⟩

/-- The acceptance rule of the property: a registration is accepted iff its name is not used
yet, it is not a Template through the wrong API and, for a template instance, the definition
it refers to is registered. -/
def Accepts (used reg : List Name) (r : Req U) : Prop :=
  r.name ∉ used ∧ ¬ WrongApi r ∧ ¬ Unregistered reg r ∧ ¬ NoInstance r

instance (used reg : List Name) (r : Req U) : Decidable (Accepts used reg r) := by
  unfold Accepts; infer_instance

/-- which requests of a manager are accepted, given the names used before it runs: decided on
names alone -/
def acceptFlags (reg : List Name) : List Name → List (Req U) → List Bool
  | _, [] => []
  | used, r :: rs =>
    if Accepts used reg r then true :: acceptFlags reg (r.name :: used) rs
    else false :: acceptFlags reg used rs

/-! ### what a birth metric has to look like -/

def idAlias : MetricId → Option Nat
  | .alias a => some a
  | .name _ => none

/-- the birth metric of an accepted request whose token carries `id` -/
def specMetric (r : Req U) (id : MetricId) : Metric U :=
  { name := some r.name, alias := idAlias id, datatype := some r.details.dt,
    timestamp := some r.details.ts,
    isNull := match r.value with | none => some true | some _ => none,
    value := r.value }

/-- the metrics of the accepted requests, in request order -/
def accepted : List (Req U) → List (Res MetricId) → List (Metric U)
  | r :: rs, .ok id :: os => specMetric r id :: accepted rs os
  | _ :: rs, _ :: os => accepted rs os
  | _, _ => []

/-- bdSeq: Int64, by name, no alias -/
def bdSeqMetric (now bdseq : Nat) : Metric U :=
  { name := some bdSeqName, alias := none, datatype := some dtInt64, timestamp := some now,
    isNull := none, value := some (.int64 bdseq) }

/-- Node Control/Rebirth: Boolean false, by name, no alias -/
def rebirthMetric (now : Nat) : Metric U :=
  { name := some rebirthName, alias := none, datatype := some dtBoolean, timestamp := some now,
    isNull := none, value := some (.bool false) }

/-- the definition metric of a registered template: by name, datatype Template -/
def defMetric (now : Nat) (e : Name × U) : Metric U :=
  { name := some e.1, alias := none, datatype := some dtTemplate, timestamp := some now,
    isNull := none, value := some (.defn e.2) }

/-- name, datatype, timestamp, and a value xor `is_null = true` -/
def WellFormed (m : Metric U) : Prop :=
  m.name.isSome ∧ m.datatype.isSome ∧ m.timestamp.isSome ∧
  ((m.value.isSome ∧ m.isNull = none) ∨ (m.value = none ∧ m.isNull = some true))

def NamesDistinct (ms : List (Metric U)) : Prop := (ms.map (·.name)).Nodup

def aliasesOf (ms : List (Metric U)) : List Nat := ms.filterMap (·.alias)

def AliasesDistinct (ms : List (Metric U)) : Prop := (aliasesOf ms).Nodup

/-- a published metric `p` names the birth metric `b`: by alias if it carries one, by name
otherwise (then the birth metric must not have declared an alias) -/
def Identifies (p b : Metric U) : Prop :=
  match p.alias with
  | some a => b.alias = some a
  | none => p.name.isSome ∧ p.name = b.name ∧ b.alias = none

/-! ### registries and device maps -/

/-- what `register` guarantees of a registry: keys distinct, never a reserved name -/
def RegOk (reg : List (Name × U)) : Prop :=
  (reg.map (·.1)).Nodup ∧ bdSeqName ∉ reg.map (·.1) ∧ rebirthName ∉ reg.map (·.1)

/-- device ids: one per device name, non-zero, 32 bit, pairwise distinct, mirrored in `ids` -/
def DevOk (dm : DevMap) : Prop :=
  (dm.devs.map (·.1)).Nodup ∧ (dm.devs.map (·.2)).Nodup ∧
  (∀ e ∈ dm.devs, 0 < e.2 ∧ e.2 < two32) ∧
  (∀ id, id ∈ dm.ids ↔ id ∈ dm.devs.map (·.2))

/-- the sequences of device-map operations -/
inductive DevOp where
  | add (n : Name)
  | remove (n : Name)

def applyDevOp (cfg : Cfg) (h : Name → Nat) (dm : DevMap) : DevOp → DevMap
  | .add n => match addDevice cfg h dm n with
    | .ok dm' _ => dm'
    | _ => dm
  | .remove n => removeDevice dm n

/-- No collision bump leaves the low 32 bits, said on the inputs: the hash of every aliased
name plus the number of requests stays below 2^32 (each bump skips one alias taken earlier). -/
def NoCarry (h : Name → Nat) (names : List Name) : Prop :=
  ∀ n ∈ names, h n % two32 + names.length < two32

/-- the calls `SimpleMetricManager::initialise_birth` makes, for entries in iteration order -/
def simpleReqs (now : Nat) (ms : List (SimpleMetric U)) : List (Req U) :=
  ms.map fun m => .metric ⟨m.name, m.useAlias, m.dt, now⟩ (some m.value)

/-- the calls a manager makes at a birth -/
def mgrReqs (now : Nat) : Mgr U → List (Req U)
  | .scripted reqs => reqs
  | .simple ms => simpleReqs now ms

def idName : MetricId → Option Name
  | .name n => some n
  | .alias _ => none

def Res.isOk {α} : Res α → Bool
  | .ok _ => true
  | _ => false

instance (h : Name → Nat) (names : List Name) : Decidable (NoCarry h names) := by
  unfold NoCarry; infer_instance

instance [DecidableEq U] (reg : List (Name × U)) : Decidable (RegOk reg) := by
  unfold RegOk; infer_instance

def DevMap.empty : DevMap := {}

/-- the aliases a birth declares (nothing for a panicked birth) -/
def birthAliases : Res (List (Metric U) × List (Res MetricId)) → List Nat
  | .ok (ms, _) => aliasesOf ms
  | _ => []

/-! ### the registration decision as a finite table (T-table `BirthTable`) -/

/-- one row: on a device or the node, through `register_template_metric` or `register_metric`,
datatype, with/without value, aliased, name already used, definition registered -/
structure BRow where
  onDev : Bool
  apiT : Bool
  dt : Nat
  hasVal : Bool
  alias : Bool
  dup : Bool
  reg : Bool
  deriving DecidableEq, Repr

/-- what came of the row's request: the birth metric's shape, or the rejection -/
inductive BShape where
  | ok (aliased : Bool) (dt : Nat) (null : Bool) (hasValue : Bool)
  | err (e : Err)
  | panic
  | none
  deriving DecidableEq, Repr

/-- the name `x`, the registered definition `T0`, an unregistered one `TX` -/
def rowX : Name := [0x78]
def rowT0 : Name := [0x54, 0x30]
def rowTX : Name := [0x54, 0x58]

def rowReqs (r : BRow) : List (Req Nat) :=
  (if r.dup then [Req.metric ⟨rowX, true, 3, 0⟩ (some 0)] else []) ++
  [if r.apiT then
      Req.template ⟨rowX, r.alias, r.dt, 0⟩
        (if r.hasVal then some (if r.reg then rowT0 else rowTX, 0) else Option.none)
    else Req.metric ⟨rowX, r.alias, r.dt, 0⟩ (if r.hasVal then some 0 else Option.none)]

/-- the model's answer for a row: a full node / device birth with `T0` registered -/
def rowShape (cfg : Cfg) (r : BRow) : BShape :=
  let b := if r.onDev then deviceBirth cfg (fun _ => 7) 0 5 [rowT0] (.scripted (rowReqs r))
           else nodeBirth cfg (fun _ => 7) 0 0 [(rowT0, 0)] (.scripted (rowReqs r))
  match b with
  | .ok (ms, res) =>
    match res.getLast? with
    | some (.ok _) =>
      match ms.getLast? with
      | some m => .ok m.alias.isSome (m.datatype.getD 0) (m.isNull == some true) m.value.isSome
      | Option.none => .none
    | some (.err e) => .err e
    | some .panic => .panic
    | Option.none => .none
  | _ => .panic

end Srad.Birth
