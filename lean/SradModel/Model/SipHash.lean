/-
M17 — `std::hash::DefaultHasher` as srad uses it: SipHash-1-3 with the keys (0, 0) over the bytes
that `impl Hash for str` feeds (`state.write(bytes); state.write_u8(0xff)`), `finish()`.

Used by `BirthInitializer::generate_alias` (srad-eon/src/birth.rs) for the low half of a metric
alias and by `DeviceMap::generate_device_id` (srad-eon/src/device.rs) for the device id.
`Model/Birth.lean` quantifies over an ARBITRARY hash; this file supplies the concrete one so that
(a) the hash values the harness reports are CHECKED by the model on every run instead of believed,
and (b) the collision witnesses of defect D10 are kernel-checked facts (Props/M17.lean).

The streaming hasher of `core::hash::sip` buffers partial words; its result depends only on the
concatenation of everything written, which is what is modelled: whole little-endian 8-byte words are
compressed in order, the final word holds the remaining bytes and `length mod 256` in its top byte.
No imports: linked into `srad_model`.
-/
namespace Srad.Sip

structure St where
  v0 : UInt64
  v1 : UInt64
  v2 : UInt64
  v3 : UInt64
  deriving DecidableEq, Repr

def rotl (x : UInt64) (k : UInt64) : UInt64 := (x <<< k) ||| (x >>> (64 - k))

/-- one SipRound (`compress!`) -/
def round (s : St) : St :=
  let v0 := s.v0 + s.v1
  let v1 := rotl s.v1 13
  let v1 := v1 ^^^ v0
  let v0 := rotl v0 32
  let v2 := s.v2 + s.v3
  let v3 := rotl s.v3 16
  let v3 := v3 ^^^ v2
  let v0 := v0 + v3
  let v3 := rotl v3 21
  let v3 := v3 ^^^ v0
  let v2 := v2 + v1
  let v1 := rotl v1 17
  let v1 := v1 ^^^ v2
  let v2 := rotl v2 32
  { v0 := v0, v1 := v1, v2 := v2, v3 := v3 }

/-- `SipHasher13::new_with_keys(k0, k1)` / `reset` -/
def init (k0 k1 : UInt64) : St :=
  { v0 := k0 ^^^ 0x736f6d6570736575, v1 := k1 ^^^ 0x646f72616e646f6d,
    v2 := k0 ^^^ 0x6c7967656e657261, v3 := k1 ^^^ 0x7465646279746573 }

/-- little-endian value of at most 8 bytes -/
def leWord : List UInt8 → UInt64
  | [] => 0
  | b :: bs => b.toUInt64 ||| (leWord bs <<< 8)

/-- absorb one message word: `v3 ^= m; c_rounds (1); v0 ^= m` -/
def absorb (s : St) (m : UInt64) : St :=
  let s := { s with v3 := s.v3 ^^^ m }
  let s := round s
  { s with v0 := s.v0 ^^^ m }

/-- all whole 8-byte words in order, then the tail (fewer than 8 bytes); `fuel` ≥ number of words -/
def absorbAll : Nat → St → List UInt8 → St × List UInt8
  | 0, s, bs => (s, bs)
  | fuel + 1, s, bs =>
    if bs.length < 8 then (s, bs)
    else absorbAll fuel (absorb s (leWord (bs.take 8))) (bs.drop 8)

/-- `finish`: last word `(length & 0xff) << 56 | tail`, then `v2 ^= 0xff`, 3 `d_rounds` -/
def finish (s : St) (tail : List UInt8) (len : Nat) : UInt64 :=
  let b : UInt64 := (UInt64.ofNat (len % 256) <<< 56) ||| leWord tail
  let s := absorb s b
  let s := { s with v2 := s.v2 ^^^ 0xff }
  let s := round (round (round s))
  s.v0 ^^^ s.v1 ^^^ s.v2 ^^^ s.v3

/-- SipHash-1-3 of a byte string under the keys `k0`, `k1` -/
def sip13 (k0 k1 : UInt64) (bs : List UInt8) : UInt64 :=
  let (s, tail) := absorbAll (bs.length / 8 + 1) (init k0 k1) bs
  finish s tail bs.length

/-- `DefaultHasher::new()`, `write(bytes)`, `finish()` -/
def defaultHashBytes (bs : List UInt8) : UInt64 := sip13 0 0 bs

/-- `DefaultHasher::new()`, `name.hash(&mut h)` for a `str`/`String`, `finish()`:
the UTF-8 bytes followed by `0xff` -/
def defaultHashStr (name : List UInt8) : UInt64 := defaultHashBytes (name ++ [0xff])

/-- as the `Name → Nat` parameter of `Model/Birth.lean` -/
def hashNat (name : List UInt8) : Nat := (defaultHashStr name).toNat

end Srad.Sip
