/-
M4 — model of template values and of the node's template registry.

  * srad-types/src/template.rs: `TemplateDefinition` / `TemplateInstance` / `TemplateValue`
    <-> `payload::Template` carried in a `MetricValue` (markers `is_definition`, `template_ref`;
    content = version, metrics, parameters moved through unchanged).
  * srad-eon/src/node.rs: `TemplateRegistry::{register, contains, deregister, clear,
    check_template_metrics}`, reached through `EoNBuilder::register_template` (srad-eon/src/
    builder.rs: any error is a panic) and `NodeMetricManager::birth_update_template_registry`.

What a metric inside a template is, as far as this code looks at it: its `datatype` field
(`Option<u32>`), and whether its `value` is absent, a template value, or anything else. All other
metric fields (name, alias, timestamp, flags, metadata, properties) and the content of a
non-template value are opaque tokens that are only ever moved, never inspected; parameters are
opaque tokens altogether. User code (`T::template_definition_metric_name()`,
`T::template_definition()`) is a parameter of `register`.

`check_template_metrics` is modelled as the property demands it (DESIGN.md D5, the minimally
repaired code): a nested template whose `template_ref` is not registered is the error
`UnregisteredMetric`, and the nested instance's own metrics are checked as well; the loop goes on
to the remaining metrics. (The code at the time of writing returns `Ok` for the whole list at the
first registered reference and never produces `UnregisteredMetric`.)

Import-free except for Model/Codec (shared `Bytes`, `Res`, `Err`, `DT`, `PV`): linked into
`srad_model`.
-/
import SradModel.Model.Codec

namespace Srad.Templ
open Srad.Codec (Bytes Res Err DT PV KV)

/-- `payload::Metric` as seen by the template code. `plain`: the value is absent (`val = none`)
or some non-template variant (opaque token); `templ`: the value is
`Value::TemplateValue(Template { version, metrics, parameters, template_ref, is_definition })`.
`rest` stands for all other fields of the metric. -/
inductive Metric where
  | plain (rest : String) (dt : Option Nat) (val : Option String)
  | templ (rest : String) (dt : Option Nat) (version : Option Bytes) (ref : Option Bytes)
      (isDef : Option Bool) (metrics : List Metric) (params : List String)

/-- `payload::Template` -/
structure Tmpl where
  version : Option Bytes
  metrics : List Metric
  params : List String
  ref : Option Bytes          -- template_ref
  isDef : Option Bool         -- is_definition

/-- `MetricValue`: a template value or any other variant (opaque) -/
inductive MV where
  | templ (t : Tmpl)
  | other (tok : String)

/-- `TemplateDefinition` -/
structure TDef where
  version : Option Bytes
  metrics : List Metric
  params : List String

/-- `TemplateInstance` -/
structure TInst where
  ref : Bytes
  version : Option Bytes
  metrics : List Metric
  params : List String

/-- `TemplateValue` -/
inductive TVal where
  | definition (d : TDef)
  | inst (i : TInst)

/-! ### conversions to the wire form -/

/-- `impl From<TemplateDefinition> for payload::Template` -/
def defToTmpl (d : TDef) : Tmpl :=
  { version := d.version, metrics := d.metrics, params := d.params, ref := none, isDef := some true }

/-- `impl From<TemplateInstance> for payload::Template` -/
def instToTmpl (i : TInst) : Tmpl :=
  { version := i.version, metrics := i.metrics, params := i.params, ref := some i.ref,
    isDef := some false }

/-- `impl From<TemplateDefinition> for MetricValue` -/
def defToMV (d : TDef) : MV := .templ (defToTmpl d)

/-- `impl From<TemplateInstance> for MetricValue` -/
def instToMV (i : TInst) : MV := .templ (instToTmpl i)

/-! ### the three decoders (control flow as in template.rs) -/

/-- `impl TryFrom<MetricValue> for TemplateDefinition` -/
def defFromMV : MV → Res TDef
  | .templ t =>
    if t.ref.isSome then .err .value                      -- tck-id-payloads-template-definition-ref
    else if !(t.isDef.getD false) then .err .value         -- `!is_definition.unwrap_or(false)`
    else .ok { version := t.version, metrics := t.metrics, params := t.params }
  | .other _ => .err .variant

/-- `impl TryFrom<MetricValue> for TemplateInstance` -/
def instFromMV : MV → Res TInst
  | .templ t =>
    if t.isDef.getD true then .err .value                  -- `is_definition.unwrap_or(true)`
    else
      match t.ref with
      | none => .err .value                                -- `template_ref.ok_or(..)?`
      | some r => .ok { ref := r, version := t.version, metrics := t.metrics, params := t.params }
  | .other _ => .err .variant

/-- `impl TryFrom<MetricValue> for TemplateValue`: looks at `is_definition` first, then hands the
same value to one of the two decoders above -/
def valueFromMV (mv : MV) : Res TVal :=
  match mv with
  | .templ t =>
    match t.isDef with
    | none => .err .value
    | some true =>
      match defFromMV mv with
      | .ok d => .ok (.definition d)
      | .err e => .err e
      | .panic => .panic
    | some false =>
      match instFromMV mv with
      | .ok i => .ok (.inst i)
      | .err e => .err e
      | .panic => .panic
  | .other _ => .err .variant

/-- datatype-directed decoding, `MetricValueKind::try_from_metric_value(DataType::Template, v)`:
the arm is `MetricValueKind::Template(TemplateValue::try_from(value)?)` -/
def kindTemplate (mv : MV) : Res TVal := valueFromMV mv

/-- what Model/Codec keeps of a metric value: the two markers -/
def MV.toPV : MV → PV
  | .templ t => .template t.isDef t.ref.isSome
  | .other _ => .ext

/-- what Model/Codec keeps of a decoded template value -/
def TVal.toKV : TVal → KV
  | .definition _ => .templDef
  | .inst _ => .templInst

/-- shape of a decoder result (T-table `TemplTable`) -/
inductive TShape where
  | okDef | okInst | errValue | errVariant | errOther | panic
  deriving DecidableEq, Repr

def shapeOfErr : Err → TShape
  | .value => .errValue
  | .variant => .errVariant
  | _ => .errOther

def defShape (mv : MV) : TShape :=
  match defFromMV mv with | .ok _ => .okDef | .err e => shapeOfErr e | .panic => .panic
def instShape (mv : MV) : TShape :=
  match instFromMV mv with | .ok _ => .okInst | .err e => shapeOfErr e | .panic => .panic
def valueShape (mv : MV) : TShape :=
  match valueFromMV mv with
  | .ok (.definition _) => .okDef | .ok (.inst _) => .okInst | .err e => shapeOfErr e | .panic => .panic
def kindShapeT (mv : MV) : TShape :=
  match kindTemplate mv with
  | .ok (.definition _) => .okDef | .ok (.inst _) => .okInst | .err e => shapeOfErr e | .panic => .panic

/-- a metric value with the given markers (`none` = a non-template variant) and no content;
the rows of the T-table are indexed by this -/
def markerMV : Option (Option Bool × Bool) → MV
  | none => .other ""
  | some (d, hasRef) =>
    .templ { version := none, metrics := [], params := [], ref := if hasRef then some [] else none,
             isDef := d }

/-! ### the registry -/

/-- `TemplateRegistryError` -/
inductive RegErr where
  | invalidName | duplicate | invalidDefinition | unregistered
  deriving DecidableEq, Repr

/-- `DataType::try_from(u32)` succeeds: the 35 codes of the protobuf enum -/
def validDatatype (c : Nat) : Bool := (DT.ofCode c).isSome

/-- `DataType::Template as u32` -/
def templateCode : Nat := DT.template.code

mutual
/-- body of the `for x in metrics` loop of `check_template_metrics` (repaired, see header);
`has` is `self.templates.contains_key` -/
def checkMetric (has : Bytes → Bool) : Metric → Except RegErr Unit
  | .plain _ dt _ =>
    match dt with
    | none => .error .invalidDefinition
    | some c =>
      if !validDatatype c then .error .invalidDefinition
      else if c ≠ templateCode then .ok ()                 -- `continue`
      else .error .invalidDefinition                       -- value absent, or not a template value
  | .templ _ dt _ ref _ ms _ =>
    match dt with
    | none => .error .invalidDefinition
    | some c =>
      if !validDatatype c then .error .invalidDefinition
      else if c ≠ templateCode then .ok ()                 -- `continue`: the value is not looked at
      else
        match ref with
        | none => .error .invalidDefinition
        | some r =>
          if !has r then .error .unregistered
          else checkMetrics has ms
/-- `check_template_metrics`: first error wins -/
def checkMetrics (has : Bytes → Bool) : List Metric → Except RegErr Unit
  | [] => .ok ()
  | m :: t =>
    match checkMetric has m with
    | .error e => .error e
    | .ok () => checkMetrics has t
end

/-- `constants::BDSEQ` = "bdSeq" -/
def bdSeqName : Bytes := [0x62, 0x64, 0x53, 0x65, 0x71]
/-- `constants::NODE_CONTROL_REBIRTH` = "Node Control/Rebirth" -/
def rebirthName : Bytes :=
  [0x4e, 0x6f, 0x64, 0x65, 0x20, 0x43, 0x6f, 0x6e, 0x74, 0x72, 0x6f, 0x6c, 0x2f,
   0x52, 0x65, 0x62, 0x69, 0x72, 0x74, 0x68]

/-- `name == NODE_CONTROL_REBIRTH || name == BDSEQ` -/
def reserved (name : Bytes) : Bool := name == rebirthName || name == bdSeqName

/-- `TemplateRegistry`: the `HashMap<String, TemplateDefinition>` as an association list in
insertion order. No operation of the registry depends on the map's iteration order (only
`contains_key`, `insert` of an absent key, `remove`, `clear`). -/
abbrev Registry := List (Bytes × TDef)

/-- `contains` -/
def Registry.has (r : Registry) (name : Bytes) : Bool := r.any (fun e => e.1 == name)

/-- `TemplateRegistry::register::<T>()` with `name = T::template_definition_metric_name()`,
`d = T::template_definition()` -/
def register (r : Registry) (name : Bytes) (d : TDef) : Except RegErr Registry :=
  if reserved name then .error .invalidName
  else if r.has name then .error .duplicate
  else
    match checkMetrics r.has d.metrics with
    | .error e => .error e
    | .ok () => .ok (r ++ [(name, d)])

/-- the definition a name is registered with (`self.templates.get(name)`; the registry has no
public accessor for it: it is what the node announces under that name, see `announced`) -/
def Registry.get? (r : Registry) (name : Bytes) : Option TDef :=
  match r with
  | [] => none
  | e :: t => if e.1 == name then some e.2 else Registry.get? t name

/-- what `Node::generate_birth_payload` puts into every NBIRTH for the registry:
`for (name, definition) in &self.template_registry.templates` one metric named `name`, datatype
Template, value `MetricValue::from(definition.clone())`. The order is the hash map's iteration
order (a permutation of this list: the driver prints it sorted by name). -/
def announced (r : Registry) : List (Bytes × MV) := r.map fun e => (e.1, defToMV e.2)

/-- `deregister` -/
def deregister (r : Registry) (name : Bytes) : Registry := r.filter (fun e => !(e.1 == name))

/-- `clear` -/
def clear (_ : Registry) : Registry := []

/-- `EoNBuilder::register_template::<T>()`: `if register().is_err() { panic!(..) }` -/
def builderRegister (r : Registry) (name : Bytes) (d : TDef) : Res Registry :=
  match register r name d with
  | .ok r' => .ok r'
  | .error _ => .panic

/-- one call on a `&mut TemplateRegistry` (what a `birth_update_template_registry` callback, or
the builder, can do) -/
inductive Op where
  | register (name : Bytes) (d : TDef)
  | deregister (name : Bytes)
  | clear

/-- the registry after the call; a failed `register` leaves it as it was -/
def applyOp (r : Registry) : Op → Registry
  | .register n d => match register r n d with | .ok r' => r' | .error _ => r
  | .deregister n => deregister r n
  | .clear => clear r

def applyOps (r : Registry) : List Op → Registry
  | [] => r
  | o :: t => applyOps (applyOp r o) t

end Srad.Templ
