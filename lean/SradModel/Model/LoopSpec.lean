/-
Vocabulary for stating C08 about `Model/Loop`: which effects are justified by what the node
sent, and the hypotheses of the convergence theorem. Definitions only.
-/
import SradModel.Model.Loop
import SradModel.Model.HostSpec

namespace Srad.Loop
open Srad Srad.Host

/-- the id in a store effect is the id of a message in `sent`, of the matching kind (NBIRTH for
the node's birth, NDATA for node data, DBIRTH / DDATA of the same device for a device) -/
def EffOk (sent : List Msg) : Eff → Prop
  | .nodeBirth id _ => ∃ ts bd, Msg.nbirth ts bd id ∈ sent
  | .nodeData id => ∃ seq ts, Msg.ndata seq ts id ∈ sent
  | .devBirth d id _ => ∃ seq ts, Msg.dbirth d seq ts id ∈ sent
  | .devData d id => ∃ seq ts, Msg.ddata d seq ts id ∈ sent
  | _ => True

/-- the node at rest, connected and birthed: every registered device's flag says whether it is
enabled, names are distinct, counters are `u8`; fewer than 255 devices are enabled, so the
`1 + #enabled` messages of one publishing round carry pairwise different sequence numbers
(with 255 enabled devices and the host's expected number shifted, the host applies each round
rotated and never notices: the inherent limit of a `u8` sequence number) -/
structure NodeOk (n : Node) : Prop where
  online : n.online = true
  birthed : n.birthed = true
  seq : n.seq < 256
  bdseq : n.bdseq < 256
  flags : ∀ x ∈ n.devs, x.flag = x.enabled
  names : (n.devs.map (·.name)).Nodup
  few : n.enabledNames.length < 255

/-- ClockCoherent for the host's record at clock reading `clock`: neither the applied NBIRTH nor
the last staleness is stamped in the future -/
def Coherent (h : Host.St) (clock : Nat) : Prop := h.birthTs ≤ clock ∧ h.staleTs ≤ clock

/-- timer discipline of a birthed host record (holds in every state reachable with a reorder
timeout configured, cooldown 0 and a coherent clock): while messages are buffered the reorder
timer is running, and a completed timer task has been handled -/
def TimerOk (h : Host.St) : Prop :=
  h.life = .birthed → h.timer ≠ .fired ∧ (h.reseq.mode ≠ .good → ∃ dl, h.timer = .armed dl)

/-- every device the host holds birthed is enabled at the node -/
def DevsBelow (h : Host.St) (n : Node) : Prop :=
  ∀ d, Host.findDev d h.devices = some .birthed → d ∈ n.enabledNames

/-- the host's record is already in step with the node as far as the node's messages can tell:
birthed, nothing buffered, no timer, expecting the node's next sequence number, holding every
enabled device birthed. (From such a record no rebirth will ever be requested.) -/
def InStep (h : Host.St) (n : Node) : Prop :=
  h.life = .birthed ∧ h.timer = .none ∧ h.reseq.mode = .good ∧ h.reseq.next = (n.seq + 1) % 256 ∧
  ∀ d ∈ n.enabledNames, Host.findDev d h.devices = some .birthed

end Srad.Loop
