/-
M7 + M3 — model of a metric's way from an edge-node handle to the host's metric store.

  edge  (srad-eon/src/metric.rs, node.rs:235-316, device.rs:53-131)
        `PublishMetric` and its builder, `impl From<PublishMetric> for Metric`, the sorting and
        non-sorting publish variants, `publish_metrics_to_payload`, `EoNState::get_next_seq`
  types (srad-types/src/property_set.rs, quality.rs, metadata.rs, payload.rs)
        `PropertyValue` / `PropertySet` / `PropertySetList` ↔ payload forms, `Quality`,
        `MetaData → payload::MetaData`, `Metric::new/set_*`
  host  (srad-app/src/metrics.rs, events.rs)
        `metric_details_try_from_payload_metric!`, `get_metric_id_and_details_from_payload_metrics`,
        `get_metric_birth_details_from_birth_metrics`, `bdseq_from_payload_metrics`,
        `NData/DData/NBirth/DBirth::try_from(Payload)`

Conventions (DESIGN.md section 5): numbers are `Nat` (bit patterns for floats), `% 256` exactly where
the Rust has `wrapping_add` / `as u8`; a Rust `String` is its byte list; a `HashMap` is an association
list — on the edge the list order *is* the (arbitrary) iteration order, on the host it is built by
`insert` (replace or add) and only ever read by key; prost is not modelled (the wire is a parameter
of the theorems). The edge conversion is the *repaired* one (defect D11: the current tree leaves
`is_null` unset for a null value); see `edgeEncode`.
No imports except other model files: linked into `srad_model`.
-/
import SradModel.Model.Codec

namespace Srad.Metric
open Srad.Codec (Bytes DT)

/-- a Rust `String`, as its UTF-8 bytes -/
abbrev Str := List UInt8

/-! ### property sets (M3) -/

/-- the non-recursive variants of `property_value::Value` -/
inductive Scalar where
  | int (n : Nat)        -- IntValue(u32)
  | long (n : Nat)       -- LongValue(u64)
  | float (bits : Nat)   -- FloatValue(f32)
  | double (bits : Nat)  -- DoubleValue(f64)
  | bool (b : Bool)      -- BooleanValue
  | str (s : Str)        -- StringValue
  | ext                  -- ExtensionValue
  deriving DecidableEq, Repr

/-- `Option<property_value::Value>` of a payload `PropertyValue` (`none` = absent); nested sets
are payload property sets: parallel key and value lists, each value = (type, is_null, value) -/
inductive PVal where
  | none
  | sc (v : Scalar)
  | set (keys : List Str) (vals : List (Option Nat × Option Bool × PVal))
  | sets (l : List (List Str × List (Option Nat × Option Bool × PVal)))
  deriving Repr

/-- `payload::PropertyValue`: (`type`, `is_null`, `value`) -/
abbrev PPV := Option Nat × Option Bool × PVal
/-- `payload::PropertySet`: (`keys`, `values`) -/
abbrev PSet := List Str × List PPV

/-- what the user of `srad_types::PropertySet` builds: `insert(k, Some(v))` with `v` a scalar, a
`PropertySet` or a `Vec<PropertySet>`, or `insert(k, None)`; each entry carries the datatype -/
inductive UVal where
  | null
  | sc (v : Scalar)
  | set (es : List (Str × Option DT × UVal))
  | sets (l : List (List (Str × Option DT × UVal)))
  deriving Repr

/-- one entry of the edge-side `HashMap<String, PropertyValue>`: key, datatype, value -/
abbrev UEnt := Str × Option DT × UVal
/-- the edge-side hash map, in the order its iterator happens to yield (arbitrary) -/
abbrev UPS := List UEnt

/-- `Quality as i32` -/
inductive Quality where
  | good | bad | stale
  deriving DecidableEq, Repr

def Quality.code : Quality → Nat
  | .good => 0 | .bad => 192 | .stale => 500

/-- `Quality::try_from(i32)` on the bit pattern of the `i32` -/
def Quality.ofCode : Nat → Option Quality
  | 0 => some .good | 192 => some .bad | 500 => some .stale | _ => none

/-- `constants::QUALITY` = "Quality" -/
def qualityKey : Str := [81, 117, 97, 108, 105, 116, 121]

/-- `PropertySet::new_with_quality`: the map with the single entry `Quality ↦ Int32 q` -/
def UPS.newWithQuality (q : Quality) : UPS := [(qualityKey, some .int32, .sc (.int q.code))]

/-- `HashMap::insert` on an association list: replace the value of an existing key, else add -/
def mapInsert {α : Type} (m : List (Str × α)) (k : Str) (v : α) : List (Str × α) :=
  match m with
  | [] => [(k, v)]
  | (k', v') :: t => if k' = k then (k, v) :: t else (k', v') :: mapInsert t k v

/-- `HashMap::get` -/
def mapGet {α : Type} (m : List (Str × α)) (k : Str) : Option α :=
  match m with
  | [] => none
  | (k', v) :: t => if k' = k then some v else mapGet t k

/-- `PropertySet::insert(k, v)` with the entry's datatype (`V::default_datatype()`): the key
`Quality` is refused -/
def UPS.insert (m : UPS) (k : Str) (dt : DT) (v : UVal) : Option UPS :=
  if k = qualityKey then none else some (mapInsert m k (some dt, v))

/-- `is_null` of `impl From<PropertyValue> for payload::PropertyValue`: `Some(true)` exactly
when there is no value -/
def UVal.nullFlag : UVal → Option Bool
  | .null => some true
  | _ => none

mutual
/-- `value.map(into)`: scalars as they are, nested sets in payload form -/
def encVal : UVal → PVal
  | .null => .none
  | .sc v => .sc v
  | .set es => .set (encKeys es) (encEnts es)
  | .sets l => .sets (encSets l)
/-- the `keys.push(k)` half of `impl From<PropertySet> for payload::PropertySet` -/
def encKeys : List UEnt → List Str
  | [] => []
  | (k, _, _) :: t => k :: encKeys t
/-- the `values.push(v.into())` half, with `impl From<PropertyValue> for payload::PropertyValue`:
`type = datatype as u32`; a value gives `value`, no value gives `is_null = true` -/
def encEnts : List UEnt → List PPV
  | [] => []
  | (_, dt, v) :: t =>
    (dt.map DT.code, v.nullFlag, encVal v) :: encEnts t
/-- `impl From<PropertySetList> for payload::PropertySetList` -/
def encSets : List (List UEnt) → List PSet
  | [] => []
  | s :: t => (encKeys s, encEnts s) :: encSets t
end

/-- `impl From<PropertySet> for payload::PropertySet`; the list order of `m` is the order the
hash map is iterated in -/
def encPS (m : UPS) : PSet := (encKeys m, encEnts m)

/-- results of the host-side decoders: every Rust operation that could panic would be an explicit
`panic` (there is none on these paths: no index, `unwrap` or arithmetic) -/
inductive Res (α : Type) where
  | ok (v : α)
  | err
  | panic
  deriving Repr

/-- the host-side (private) `PropertyValue`: datatype and `Option<value>` (`PVal.none` = `None`);
a nested set stays in payload form until the user converts it -/
abbrev HEnt := Option DT × PVal
/-- the host-side `PropertySet(HashMap<String, PropertyValue>)` -/
abbrev HMap := List (Str × HEnt)

/-- first half of `impl TryFrom<payload::PropertyValue> for PropertyValue`: a value is taken as it
is (whatever `is_null` says); without a value `is_null` must be `Some(true)` -/
def pvValue (isNull : Option Bool) (v : PVal) : Res PVal :=
  match v with
  | .none =>
    match isNull with
    | some true => .ok .none
    | some false => .err
    | Option.none => .err
  | v => .ok v

/-- second half: `match payload.r#type { Some(v) => Some(v.try_into()?), None => None }` with
`DataType::try_from(u32)` -/
def pvType (ty : Option Nat) : Res (Option DT) :=
  match ty with
  | Option.none => .ok Option.none
  | some c =>
    match DT.ofCode c with
    | some d => .ok (some d)
    | Option.none => .err

/-- `impl TryFrom<payload::PropertyValue> for PropertyValue` -/
def decPV : PPV → Res HEnt
  | (ty, isNull, v) =>
    match pvValue isNull v with
    | .ok val =>
      match pvType ty with
      | .ok d => .ok (d, val)
      | .err => .err
      | .panic => .panic
    | .err => .err
    | .panic => .panic

/-- the `for (k, v) in keys.into_iter().zip(values)` loop: first failure returns -/
def decLoop : List Str → List PPV → HMap → Res HMap
  | k :: ks, v :: vs, m =>
    match decPV v with
    | .ok e => decLoop ks vs (mapInsert m k e)
    | .err => .err
    | .panic => .panic
  | _, _, m => .ok m

/-- `impl TryFrom<payload::PropertySet> for PropertySet` -/
def decPS : PSet → Res HMap
  | (keys, vals) => if keys.length ≠ vals.length then .err else decLoop keys vals []

/-- `impl TryFrom<payload::PropertySetList> for PropertySetList` -/
def decPSList : List PSet → Res (List HMap)
  | [] => .ok []
  | s :: t =>
    match decPS s with
    | .ok m =>
      match decPSList t with
      | .ok r => .ok (m :: r)
      | e => e
    | .err => .err
    | .panic => .panic

/-- `impl TryFrom<PropertyValueValue> for PropertySet` (what the user calls on a nested value) -/
def setOfValue : PVal → Res HMap
  | .set keys vals => decPS (keys, vals)
  | _ => .err

/-- `impl TryFrom<PropertyValueValue> for PropertySetList` -/
def setsOfValue : PVal → Res (List HMap)
  | .sets l => decPSList l
  | _ => .err

/-- `impl From<PropertySet> for payload::PropertySet` on the host's map (how a store reads it back) -/
def hmapToPayload (m : HMap) : PSet :=
  (m.map (·.1), m.map fun (_, dt, v) =>
    (dt.map DT.code, (match v with | .none => some true | _ => Option.none), v))

/-! ### metadata -/

/-- `srad_types::MetaData` -/
structure EMeta where
  description : Option Str := none
  contentType : Option Str := none
  size : Option Nat := none
  md5 : Option Str := none
  fileName : Option Str := none
  fileType : Option Str := none
  deriving DecidableEq, Repr

/-- `payload::MetaData` -/
structure PMeta where
  isMultiPart : Option Bool := none
  contentType : Option Str := none
  size : Option Nat := none
  seq : Option Nat := none
  fileName : Option Str := none
  fileType : Option Str := none
  md5 : Option Str := none
  description : Option Str := none
  deriving DecidableEq, Repr

/-- `impl From<MetaData> for payload::MetaData` -/
def metaToPayload (m : EMeta) : PMeta :=
  { isMultiPart := none, contentType := m.contentType, size := m.size, seq := none,
    fileName := m.fileName, fileType := m.fileType, md5 := m.md5, description := m.description }

/-! ### metrics -/

/-- `metric::Value`; data sets and templates are carried as they are (their prost bytes stand for
the sub-message: no conversion on this path looks inside) -/
inductive MVal where
  | int (n : Nat) | long (n : Nat) | float (bits : Nat) | double (bits : Nat) | bool (b : Bool)
  | str (s : Str) | bytes (b : Bytes) | dataset (enc : Bytes) | template (enc : Bytes) | ext
  deriving DecidableEq, Repr

inductive MetricId where
  | name (n : Str)
  | alias (a : Nat)
  deriving DecidableEq, Repr

/-- `srad_eon::PublishMetric` -/
structure PubMetric where
  id : MetricId
  value : Option MVal
  isTransient : Option Bool
  isHistorical : Option Bool
  timestamp : Nat
  metadata : Option EMeta
  properties : Option UPS

/-- `PublishMetric::new` (reached through `MetricToken::create_publish_metric`): `now` is the
reading of `timestamp()`, `publishMeta` the answer of the value type's `publish_metadata()`
(user code; `None` for every built-in type), consulted only when there is a value -/
def PubMetric.new (now : Nat) (publishMeta : Option EMeta) (id : MetricId) (value : Option MVal) :
    PubMetric :=
  { id := id, metadata := (match value with | some _ => publishMeta | none => none), value := value,
    isTransient := none, isHistorical := none, properties := none, timestamp := now }

def PubMetric.withTimestamp (m : PubMetric) (t : Nat) : PubMetric := { m with timestamp := t }
def PubMetric.transient (m : PubMetric) (b : Bool) : PubMetric := { m with isTransient := some b }
def PubMetric.historical (m : PubMetric) (b : Bool) : PubMetric := { m with isHistorical := some b }
def PubMetric.withMetadata (m : PubMetric) (md : EMeta) : PubMetric := { m with metadata := some md }
def PubMetric.withProperties (m : PubMetric) (p : UPS) : PubMetric := { m with properties := some p }

/-- `payload::Metric` -/
structure PMetric where
  name : Option Str := none
  alias : Option Nat := none
  timestamp : Option Nat := none
  datatype : Option Nat := none
  isHistorical : Option Bool := none
  isTransient : Option Bool := none
  isNull : Option Bool := none
  metadata : Option PMeta := none
  properties : Option PSet := none
  value : Option MVal := none

/-- `Metric::new()` -/
def PMetric.new : PMetric := {}
def PMetric.setName (m : PMetric) (n : Str) : PMetric := { m with name := some n }
def PMetric.setAlias (m : PMetric) (a : Nat) : PMetric := { m with alias := some a }
/-- `Metric::set_value`: the value, and `is_null` cleared -/
def PMetric.setValue (m : PMetric) (v : MVal) : PMetric := { m with value := some v, isNull := none }
/-- `Metric::set_null` -/
def PMetric.setNull (m : PMetric) : PMetric := { m with value := none, isNull := some true }

/-- `impl From<PublishMetric> for Metric`, statement by statement. **Repaired (D11)**: the
current tree has no `else` branch, so a null value leaves `is_null` unset and srad's own host
refuses the payload; the property demands that a null arrives as a null. -/
def edgeEncode (pm : PubMetric) : PMetric :=
  let m := PMetric.new
  let m := match pm.id with
    | .name n => m.setName n
    | .alias a => m.setAlias a
  let m := { m with metadata := pm.metadata.map metaToPayload }
  let m := match pm.value with
    | some v => m.setValue v
    | none => m.setNull
  let m := { m with timestamp := some pm.timestamp }
  let m := { m with properties := pm.properties.map encPS }
  let m := { m with isHistorical := pm.isHistorical }
  { m with isTransient := pm.isTransient }

/-- `payload::Payload` -/
structure Payload where
  timestamp : Option Nat
  metrics : List PMetric
  seq : Option Nat
  uuid : Option Str := none
  body : Option Bytes := none

/-- `publish_metrics_to_payload` (node and device handle alike) -/
def payloadOf (seq now : Nat) (ms : List PubMetric) : Payload :=
  { timestamp := some now, metrics := ms.map edgeEncode, seq := some seq }

/-- `EoNStateInner` -/
structure EdgeState where
  seq : Nat
  online : Bool
  birthed : Bool
  deriving DecidableEq, Repr

inductive PubErr where
  | noMetrics | offline | unbirthed
  deriving DecidableEq, Repr

/-- `EoNState::get_next_seq`: `seq.wrapping_add(1)` on a `u8` -/
def getNextSeq (s : EdgeState) : Except PubErr (Nat × EdgeState) :=
  if !s.online then .error .offline
  else if !s.birthed then .error .unbirthed
  else
    let n := (s.seq + 1) % 256
    .ok (n, { s with seq := n })

/-- outcome of a publish call up to the hand-over to the client -/
inductive PubRes where
  | handedOver (p : Payload) (s : EdgeState)
  | refused (e : PubErr)

/-- `(try_)publish_metrics_unsorted` of `NodeHandle`; for `DeviceHandle` `devBirthed` is the
device's own flag (`check_publish_state_and_get_seq`), `true` for the node. One payload, metrics
in the given order. -/
def publishUnsorted (devBirthed : Bool) (now : Nat) (s : EdgeState) (ms : List PubMetric) : PubRes :=
  if ms.isEmpty then .refused .noMetrics
  else if !devBirthed then .refused .unbirthed
  else
    match getNextSeq s with
    | .error e => .refused e
    | .ok (seq, s') => .handedOver (payloadOf seq now ms) s'

/-- insertion of an element that stood *before* all of the list into the sorted list: in front
of the first element that is not smaller (so in front of its equals: stability) -/
def insertByTs (x : PubMetric) : List PubMetric → List PubMetric
  | [] => [x]
  | y :: t => if x.timestamp ≤ y.timestamp then x :: y :: t else y :: insertByTs x t

/-- `metrics.sort_by(|a, b| a.timestamp.cmp(&b.timestamp))` — a stable sort (std's contract);
modelled as the stable insertion sort -/
def sortByTs : List PubMetric → List PubMetric
  | [] => []
  | x :: t => insertByTs x (sortByTs t)

/-- `(try_)publish_metrics`: sort, then the unsorted variant -/
def publishSorted (devBirthed : Bool) (now : Nat) (s : EdgeState) (ms : List PubMetric) : PubRes :=
  publishUnsorted devBirthed now s (sortByTs ms)

/-! ### host (srad-app/src/metrics.rs, events.rs) -/

/-- classes of `PayloadError` / `PayloadMetricError` -/
inductive MErr where
  | seq      -- MissingSeq
  | seq0     -- InvalidSeq (NBIRTH with seq ≠ 0)
  | bdseq    -- InvalidBdseq
  | ts       -- MissingTimestamp (payload)
  | mts      -- MetricError(MissingTimestamp)
  | dt       -- MetricError(MissingDatatype)
  | dtcode   -- MetricError(InvalidDatatype)
  | name     -- MetricError(MissingName)
  | null     -- MetricError(NotNullNoValue)
  | props    -- MetricError(InvalidProperties)
  deriving DecidableEq, Repr

/-- `MetricDetails` -/
structure Details where
  value : Option MVal
  properties : Option HMap
  metadata : Option PMeta
  timestamp : Nat
  isHistorical : Bool
  isTransient : Bool

/-- `metric_details_try_from_payload_metric!` -/
def detailsOf (m : PMetric) : Except MErr Details :=
  match m.timestamp with
  | none => .error .mts
  | some timestamp =>
    let value : Except MErr (Option MVal) :=
      match m.value with
      | some v => .ok (some v)
      | none =>
        match m.isNull with
        | some true => .ok none
        | some false => .error .null
        | none => .error .null
    match value with
    | .error e => .error e
    | .ok value =>
      let properties : Except MErr (Option HMap) :=
        match m.properties with
        | some ps =>
          match decPS ps with
          | .ok h => .ok (some h)
          | _ => .error .props
        | none => .ok none
      match properties with
      | .error e => .error e
      | .ok properties =>
        .ok { value := value, properties := properties, metadata := m.metadata,
              timestamp := timestamp, isHistorical := m.isHistorical.getD false,
              isTransient := m.isTransient.getD false }

/-- `get_metric_id_and_details_from_payload_metrics`: alias before name; first error returns -/
def idAndDetails : List PMetric → Except MErr (List (MetricId × Details))
  | [] => .ok []
  | x :: t =>
    let id : Except MErr MetricId :=
      match x.alias with
      | some a => .ok (.alias a)
      | none =>
        match x.name with
        | some n => .ok (.name n)
        | none => .error .name
    match id with
    | .error e => .error e
    | .ok id =>
      match detailsOf x with
      | .error e => .error e
      | .ok d =>
        match idAndDetails t with
        | .error e => .error e
        | .ok r => .ok ((id, d) :: r)

/-- `NData` / `DData` -/
structure NData where
  seq : Nat
  timestamp : Nat
  metrics : List (MetricId × Details)

/-- `NData::try_from(Payload)` = `DData::try_from(Payload)`: `seq as u8` -/
def ndataOfPayload (p : Payload) : Except MErr NData :=
  match p.seq with
  | none => .error .seq
  | some seq =>
    match p.timestamp with
    | none => .error .ts
    | some ts =>
      match idAndDetails p.metrics with
      | .error e => .error e
      | .ok ms => .ok { seq := seq % 256, timestamp := ts, metrics := ms }

/-- `MetricBirthDetails` -/
structure BirthDetails where
  name : Str
  alias : Option Nat
  datatype : DT

/-- `get_metric_birth_details_from_birth_metrics` -/
def birthDetails : List PMetric → Except MErr (List (BirthDetails × Details))
  | [] => .ok []
  | x :: t =>
    match x.datatype with
    | none => .error .dt
    | some c =>
      match DT.ofCode c with
      | none => .error .dtcode
      | some d =>
        match x.name with
        | none => .error .name
        | some n =>
          match detailsOf x with
          | .error e => .error e
          | .ok det =>
            match birthDetails t with
            | .error e => .error e
            | .ok r => .ok (({ name := n, alias := x.alias, datatype := d }, det) :: r)

/-- `constants::BDSEQ` = "bdSeq" -/
def bdSeqName : Str := [98, 100, 83, 101, 113]

/-- `bdseq_from_payload_metrics`: the first metric named `bdSeq` decides; its value must be a
`LongValue` whose `i64` reading lies in `0..=255` -/
def bdseqOf : List PMetric → Option Nat
  | [] => none
  | x :: t =>
    if x.name = some bdSeqName then
      match x.value with
      | some (.long n) => if n ≤ 255 then some n else none   -- n ≥ 2^63 reads as a negative i64
      | _ => none
    else bdseqOf t

structure BirthMsg where
  bdseq : Option Nat      -- NBIRTH only
  seq : Nat
  timestamp : Nat
  metrics : List (BirthDetails × Details)

/-- `NBirth::try_from(Payload)` -/
def nbirthOfPayload (p : Payload) : Except MErr BirthMsg :=
  match p.seq with
  | none => .error .seq
  | some seq =>
    if seq ≠ 0 then .error .seq0 else
    match p.timestamp with
    | none => .error .ts
    | some ts =>
      match bdseqOf p.metrics with
      | none => .error .bdseq
      | some b =>
        match birthDetails p.metrics with
        | .error e => .error e
        | .ok ms => .ok { bdseq := some b, seq := 0, timestamp := ts, metrics := ms }

/-- `DBirth::try_from(Payload)` -/
def dbirthOfPayload (p : Payload) : Except MErr BirthMsg :=
  match p.seq with
  | none => .error .seq
  | some seq =>
    match p.timestamp with
    | none => .error .ts
    | some ts =>
      match birthDetails p.metrics with
      | .error e => .error e
      | .ok ms => .ok { bdseq := none, seq := seq % 256, timestamp := ts, metrics := ms }

/-- what the host's event loop makes of the bytes of a DATA publish; `dec` is prost's decoder -/
inductive HostOut where
  | invalidPublish                 -- `Event::InvalidPublish` (payload does not decode)
  | invalidPayload (e : MErr)      -- `AppEvent::InvalidPayload`: nothing reaches the store
  | data (d : NData)               -- one `update_from_data(d.metrics)` once the message is admitted

def hostReceiveData (dec : Bytes → Option Payload) (bytes : Bytes) : HostOut :=
  match dec bytes with
  | none => .invalidPublish
  | some p =>
    match ndataOfPayload p with
    | .error e => .invalidPayload e
    | .ok d => .data d

/-! ### shapes for the regenerated decision tables (`Generated/MetricTable.lean`) -/

inductive HShape where
  | ok (idIsAlias null hist trans hasProps : Bool)
  | err (e : MErr)
  | other
  deriving DecidableEq, Repr

/-- sample property sets of the host table: 0 absent, 1 well-formed, 2 count mismatch -/
def sampleProps : Nat → Option PSet
  | 0 => none
  | 1 => some ([qualityKey], [(some 3, none, .sc (.int 0))])
  | _ => some ([qualityKey, [98]], [(some 3, none, .sc (.int 0))])

/-- the payload metric with the given markers (fixed sample contents) -/
def markerMetric (alias name ts value : Bool) (nu hi tr : Option Bool) (props : Nat) : PMetric :=
  { name := if name then some [109] else none, alias := if alias then some 7 else none,
    timestamp := if ts then some 9 else none, datatype := none, isHistorical := hi,
    isTransient := tr, isNull := nu, metadata := none, properties := sampleProps props,
    value := if value then some (.int 5) else none }

def hostShape (m : PMetric) : HShape :=
  match idAndDetails [m] with
  | .error e => .err e
  | .ok [(id, d)] =>
    .ok (match id with | .alias _ => true | .name _ => false) d.value.isNone d.isHistorical
      d.isTransient d.properties.isSome
  | .ok _ => .other

/-- markers of a payload metric -/
structure EShape where
  name : Bool
  alias : Bool
  timestamp : Bool
  datatype : Bool
  isHistorical : Option Bool
  isTransient : Option Bool
  isNull : Option Bool
  metadata : Bool
  properties : Bool
  value : Bool
  deriving DecidableEq, Repr

def PMetric.markers (m : PMetric) : EShape :=
  { name := m.name.isSome, alias := m.alias.isSome, timestamp := m.timestamp.isSome,
    datatype := m.datatype.isSome, isHistorical := m.isHistorical, isTransient := m.isTransient,
    isNull := m.isNull, metadata := m.metadata.isSome, properties := m.properties.isSome,
    value := m.value.isSome }

/-- the publish metric with the given markers, built through the builder as a user does -/
def markerPub (alias value : Bool) (tr hi : Option Bool) (ts hasMeta props : Bool) : PubMetric :=
  let m := PubMetric.new 77 none (if alias then .alias 7 else .name [109])
    (if value then some (.int 5) else none)
  let m := if ts then m.withTimestamp 9 else m
  let m := match tr with | some b => m.transient b | none => m
  let m := match hi with | some b => m.historical b | none => m
  let m := if hasMeta then m.withMetadata { description := some [100] } else m
  if props then m.withProperties (UPS.newWithQuality .good) else m

inductive PShape where
  | ok (entries : Nat) (null : Bool) (dt : Option Nat)
  | err
  | other
  deriving DecidableEq, Repr

/-- the payload property set of a `metricPropTable` row: `nk` keys, `nv` copies of one value -/
def markerPSet (nk nv : Nat) (value : Bool) (nu : Option Bool) (ty : Option Nat) : PSet :=
  (([[97], [98], [99]] : List Str).take nk,
   List.replicate nv (ty, nu, if value then PVal.sc (.int 1) else PVal.none))

def propShape (ps : PSet) : PShape :=
  match decPS ps with
  | .ok m =>
    match m with
    | [] => .ok 0 false none
    | (_, dt, v) :: _ => .ok m.length (match v with | .none => true | _ => false) (dt.map DT.code)
  | .err => .err
  | .panic => .other

end Srad.Metric
