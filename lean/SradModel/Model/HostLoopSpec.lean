/-
Vocabulary for stating C16 over the M10 model: what a trace of effects says about itself
(which will is registered, whether the birth has gone out), a monitor automaton that accepts
exactly the legal STATE/will traces, and the configured namespace of a subscription
configuration. Nothing here looks at the model's state.
-/
import SradModel.Model.HostLoop

namespace Srad.HostLoop

/-! ### reading a trace -/

def lastWillRev : List Eff → Option Nat
  | [] => none
  | .setWill _ ts :: _ => some ts
  | _ :: t => lastWillRev t

/-- the timestamp of the will registered last (scanning back from the end of the trace) -/
def lastWill (tr : List Eff) : Option Nat := lastWillRev tr.reverse

def birthOutRev : List Eff → Bool
  | [] => false
  | .setWill _ _ :: _ => false
  | .publishState _ true _ _ :: _ => true
  | _ :: t => birthOutRev t

/-- "its birth has gone out": scanning back from the end of the trace, an `{online:true}`
publish is met before any will registration (see `birthOut_iff` for the declarative form) -/
def birthOut (tr : List Eff) : Bool := birthOutRev tr.reverse

def Eff.isWill : Eff → Bool
  | .setWill _ _ => true
  | _ => false

def Eff.isSubscribe : Eff → Bool
  | .subscribe _ => true
  | _ => false

/-! ### the monitor: which traces are legal for the host `own` (its STATE topic)

`idle`: a will is registered (once `will` is `some`), no session open. `subscribed`: the filters
of a new session have gone out, the birth has not yet. `born`: the birth of the session went out.
-/

inductive Phase where
  | idle | subscribed | born
  deriving DecidableEq, Repr

structure Mon where
  will : Option Nat
  phase : Phase
  deriving DecidableEq, Repr

def Mon.init : Mon := ⟨none, .idle⟩

/-- one effect; `none` = the trace is illegal -/
def monStep (own : Str) (m : Mon) : Eff → Option Mon
  | .setWill t ts =>
    -- a will is for the host's own STATE topic and is never registered between the
    -- subscription and the birth of a session
    if t = own ∧ m.phase ≠ .subscribed then some ⟨some ts, .idle⟩ else none
  | .subscribe _ =>
    -- a session opens only on top of a registered will that no session has used yet
    if m.phase = .idle ∧ m.will.isSome then some { m with phase := .subscribed } else none
  | .publishState t true ts isTry =>
    -- a birth (first or republished): own topic, blocking publish, only after the session's
    -- subscription, and it carries the timestamp of the registered will
    if t = own ∧ isTry = false ∧ m.will = some ts ∧ m.phase ≠ .idle then
      some { m with phase := .born } else none
  | .publishState t false _ isTry =>
    -- the offline certificate of `cancel`: own topic, `try_` publish, not inside a session opening
    if t = own ∧ isTry = true ∧ m.phase ≠ .subscribed then some m else none
  | .disconnect => if m.phase ≠ .subscribed then some m else none

def monRun (own : Str) : Mon → List Eff → Option Mon
  | m, [] => some m
  | m, e :: t => match monStep own m e with
    | none => none
    | some m' => monRun own m' t

/-- the trace is legal and does not end in the middle of a session opening -/
def Accepted (own : Str) (tr : List Eff) : Prop :=
  ∃ m, monRun own Mon.init tr = some m ∧ m.phase ≠ .subscribed

/-! ### the configured namespace -/

/-- group `g` / node `n` is inside what the configuration asks for -/
inductive Allows : SubCfg → Str → Str → Prop
  | all (g n) : Allows .allGroups g n
  | single (g n) : Allows (.singleGroup g) g n
  | customGroup (l g n) : NsSub.group g ∈ l → Allows (.custom l) g n
  | customNode (l g n) : NsSub.node g n ∈ l → Allows (.custom l) g n

/-- `t` is a node-level or device-level topic (any verb `v` that is one topic level) of a node the
configuration asks for -/
def InNamespace (cfg : SubCfg) (t : Str) : Prop :=
  ∃ g v n, Allows cfg g n ∧ '/' ∉ v ∧ (t = nodeTopic g v n ∨ ∃ d, t = deviceTopic g v n d)

/-- some subscribed filter matches `t` -/
def Covered (fs : List Str) (t : Str) : Prop := ∃ f ∈ fs, mqttMatch f t = true

/-- the filter strings handed to `subscribe_many` when the host comes online -/
def subscribed (cfg : SubCfg) (host : Str) : List Str :=
  (subscribeTopics cfg host).map Topic.render


/-! ### T-table `HostLoopTable`: the decision table of the loop, enumerated through the compiled
crate by `srad-verif table HostLoopTable`.

Scenario of every row: host `H1`, configuration number `cfg` (0 = `AllGroups`, 1 =
`SingleGroup G1`, 2 = `Custom [Group G1, Node G2 N1]`), constructed at clock reading 1000, then
the inputs `pre ++ [inp]`, the k-th (from 1) at clock reading `1000 + 10 k`. A row records the
*shape* of what the last input made the real code do. -/

inductive InK where
  | online | offline | ownOn | ownOff | foreignOn | foreignOff | other | cancel | timeout
  deriving DecidableEq, Repr

/-- a subscribed filter, recognised by its text -/
inductive FK where
  | full | group (i : Nat) | node (i j : Nat) | ownState | unknown
  deriving DecidableEq, Repr

inductive Sh where
  /-- `set_last_will`: on the own STATE topic? timestamp = this step's clock reading? -/
  | will (own fresh : Bool)
  | sub (fs : List FK)
  /-- STATE publish: own topic? `online`? timestamp = the will registered last? = this step's
  clock reading? through `try_publish_state_message`? -/
  | pub (own online tsIsWill tsIsNow isTry : Bool)
  | disc
  deriving DecidableEq, Repr

structure Row where
  cfg : Nat
  pre : List InK
  inp : InK
  eff : List Sh
  ret : List Ret
  deriving DecidableEq, Repr

def tHost : Str := ['H', '1']
def tForeign : Str := ['H', '2']
def tG1 : Str := ['G', '1']
def tG2 : Str := ['G', '2']
def tN1 : Str := ['N', '1']

def tableCfg : Nat → SubCfg
  | 0 => .allGroups
  | 1 => .singleGroup tG1
  | _ => .custom [.group tG1, .node tG2 tN1]

def tableIn : InK → In
  | .online => .ev .online
  | .offline => .ev .offline
  | .ownOn => .ev (.state tHost true 7)
  | .ownOff => .ev (.state tHost false 7)
  | .foreignOn => .ev (.state tForeign true 7)
  | .foreignOff => .ev (.state tForeign false 7)
  | .other => .ev .other
  | .cancel => .cancel
  | .timeout => .timeout

/-- the k-th input (from 1) happens at clock reading `1000 + 10 k` -/
def tableSteps : Nat → List InK → List Step
  | _, [] => []
  | k, i :: t => ⟨tableIn i, 1000 + 10 * k⟩ :: tableSteps (k + 1) t

def classify (f : Str) : FK :=
  if f = Topic.full.render then .full
  else if f = (Topic.group tG1).render then .group 1
  else if f = (Topic.group tG2).render then .group 2
  else if f = (Topic.node tG2 tN1).render then .node 2 1
  else if f = stateHostTopic tHost then .ownState
  else .unknown

def shapeOf (will : Option Nat) (now : Nat) : Eff → Sh
  | .setWill t ts => .will (t = stateHostTopic tHost) (ts = now)
  | .subscribe fs => .sub (fs.map classify)
  | .publishState t on ts isTry =>
    .pub (t = stateHostTopic tHost) on (will = some ts) (ts = now) isTry
  | .disconnect => .disc

/-- shapes of a step's effects; the "will registered last" moves with the effects -/
def shapes (now : Nat) : Option Nat → List Eff → List Sh
  | _, [] => []
  | w, e :: t =>
    shapeOf w now e :: shapes now (match e with | .setWill _ ts => some ts | _ => w) t

/-- what the model does in the scenario of a row -/
def modelRow (cfg : Nat) (pre : List InK) (inp : InK) : Option (List Sh × List Ret) :=
  match history (tableCfg cfg) tHost 1000 (tableSteps 1 pre) with
  | none => none
  | some (s, tr, _) =>
    let now := 1000 + 10 * (pre.length + 1)
    let (_, eff, r) := step (tableCfg cfg) tHost s (tableIn inp) now
    some (shapes now (lastWill tr) eff, r)

/-! the property, read off the inputs alone (no model state): is a session open, is a cancel
being waited out -/

structure TSpec where
  connected : Bool := false
  draining : Bool := false
  pending : Bool := false
  deriving DecidableEq, Repr

def TSpec.next (s : TSpec) : InK → TSpec
  | .online => if s.draining then s else { s with connected := true }
  | .offline => if s.connected then { connected := false, draining := false, pending := false } else s
  | .cancel =>
    if s.draining then { s with pending := true }
    else if s.connected then { s with draining := true } else s
  | .timeout =>
    if s.draining then (if s.pending then { s with pending := false } else { s with draining := false })
    else s
  | _ => s

/-- the input prefixes of the table: every phase of a session and of a shutdown drain -/
def tablePrefixes : List (List InK) :=
  [[], [.online], [.online, .offline], [.online, .offline, .online], [.online, .ownOff], [.cancel],
   [.online, .cancel], [.online, .cancel, .cancel], [.online, .cancel, .offline],
   [.online, .cancel, .timeout], [.online, .cancel, .cancel, .timeout],
   [.online, .cancel, .cancel, .offline]]

def allInK : List InK :=
  [.online, .offline, .ownOn, .ownOff, .foreignOn, .foreignOff, .other, .cancel, .timeout]

/-- the one input the harness does not issue: a third `cancel` while two are outstanding parks in
`Sender::send` -/
def thirdCancel (pre : List InK) (i : InK) : Bool :=
  let s := pre.foldl TSpec.next {}
  decide (i = .cancel) && s.draining && s.pending

/-- every cell (configuration × prefix × last input) has a row -/
def tableComplete (t : List Row) : Bool :=
  [0, 1, 2].all fun c => tablePrefixes.all fun p => allInK.all fun i =>
    thirdCancel p i || t.any fun r => decide (r.cfg = c) && decide (r.pre = p) && decide (r.inp = i)

def expectedFK : Nat → List FK
  | 0 => [.full]
  | 1 => [.group 1, .ownState]
  | _ => [.group 1, .node 2 1, .ownState]

/-- C16 for one row of the table -/
def rowOk (r : Row) : Bool :=
  let s := r.pre.foldl TSpec.next {}
  let birth := Sh.pub true true true false false
  match r.inp with
  | .online =>
    if s.draining then r.eff = []
    else if s.connected then r.eff = [] ∧ r.ret = []
    else r.eff = [.sub (expectedFK r.cfg), birth] ∧ r.ret = [.online]
  | .offline =>
    if s.connected then
      r.eff = [.will true true] ∧ (if s.draining then .cancelled ∈ r.ret else r.ret = [.offline])
    else r.eff = [] ∧ r.ret = []
  | .ownOff =>
    if s.draining then r.eff = []
    else if s.connected then r.eff = [birth] ∧ r.ret = []
    else r.eff = [] ∧ r.ret = []
  | .ownOn | .foreignOn | .foreignOff | .other => r.eff = [] ∧ r.ret = []
  | .cancel =>
    r.eff = [.pub true false false true true, .disc] ∧
    (if ¬ s.draining ∧ ¬ s.connected then r.ret = [.cancelled] else r.ret = [])
  | .timeout =>
    r.eff = [] ∧ (if s.draining then .cancelled ∈ r.ret else r.ret = [])

end Srad.HostLoop
