/-
M7 — model of the host-side payload admission of srad-app:
  srad-app/src/metrics.rs   `bdseq_from_payload_metrics`, `metric_details_try_from_payload_metric!`,
                            `get_metric_id_and_details_from_payload_metrics`,
                            `get_metric_birth_details_from_birth_metrics`
  srad-app/src/events.rs    `TryFrom<Payload>` for NBirth / NDeath / NData / DBirth / DDeath / DData,
                            `TryFrom<NodeMessage> for AppNodeEvent`, `TryFrom<DeviceMessage> for AppDeviceEvent`
  srad-app/src/eventloop.rs `handle_node_message`, `handle_device_message`, the Node/Device arms of
                            `handle_event` (what `AppEventLoop::poll` returns for a message)
  srad-types/src/property_set.rs `TryFrom<payload::PropertySet> for PropertySet` (concrete instance
                            `decodePSet`, used by the driver; the admission functions take the
                            property-set decoder as a parameter)

Conventions (DESIGN.md section 5): `u64`/`u32` fields are `Nat`; `seq as u8` is an explicit
`% 256`; `i64::from_le_bytes` is the explicit two's-complement reading `toI64`; strings are their
UTF-8 bytes; the control flow (order of checks, early returns, loops over the metric vector) follows
the Rust line by line, errors are the Rust error variants. No `unwrap`/index/arithmetics that can
panic occur in this code, so there is no panic outcome.
Only imports other Model files (linked into `srad_model`).
-/
import SradModel.Model.Codec

namespace Srad.Admit
open Srad.Codec

/-! ### payload (prost structs of srad-types/src/generated) -/

/-- `payload::MetaData`: passed through untouched by the code, an opaque token here -/
abbrev Meta := String

/-- `payload::PropertyValue` -/
structure PropVal where
  ty : Option Nat          -- `type: Option<u32>`
  isNull : Option Bool
  value : Option PV        -- `property_value::Value`
  deriving DecidableEq, Repr

/-- `payload::PropertySet` -/
structure PSet where
  keys : List Bytes
  values : List PropVal
  deriving DecidableEq, Repr

/-- `payload::Metric` -/
structure Metric where
  name : Option Bytes
  alias : Option Nat
  timestamp : Option Nat
  datatype : Option Nat
  isHistorical : Option Bool
  isTransient : Option Bool
  isNull : Option Bool
  metadata : Option Meta
  properties : Option PSet
  value : Option PV          -- `metric::Value`
  deriving DecidableEq, Repr

/-- `Payload`; `uuid` and `body` are never read by the host -/
structure Payload where
  timestamp : Option Nat
  metrics : List Metric
  seq : Option Nat
  uuid : Option Bytes
  body : Option Bytes
  deriving DecidableEq, Repr

/-! ### errors -/

/-- `PayloadMetricError` -/
inductive MErr where
  | missingTimestamp | missingDatatype | invalidDatatype | missingName | notNullNoValue
  | invalidProperties
  deriving DecidableEq, Repr

/-- `PayloadError` -/
inductive PErr where
  | missingSeq | invalidSeq | invalidBdseq | missingTimestamp
  | metric (e : MErr)
  deriving DecidableEq, Repr

/-! ### srad-types: property sets (`TryFrom<payload::PropertySet> for PropertySet`) -/

/-- srad-types' private `PropertyValue { value, datatype }` -/
structure DPropVal where
  value : Option PV
  datatype : Option DT
  deriving DecidableEq, Repr

/-- `TryFrom<payload::PropertyValue> for PropertyValue` -/
def decodePropVal (v : PropVal) : Option DPropVal :=
  match
    (match v.value with
     | some x => some (some x)
     | none =>
       match v.isNull with
       | some true => some none
       | some false => none
       | none => none) with
  | none => none
  | some value =>
    match v.ty with
    | some t =>
      match DT.ofCode t with          -- `v.try_into()?`
      | some d => some { value := value, datatype := some d }
      | none => none
    | none => some { value := value, datatype := none }

/-- `HashMap::insert` on an association list kept in first-insertion order -/
def mapInsert {β} (k : Bytes) (v : β) : List (Bytes × β) → List (Bytes × β)
  | [] => [(k, v)]
  | (k', v') :: t => if k' = k then (k, v) :: t else (k', v') :: mapInsert k v t

/-- the `for (k, v) in keys.into_iter().zip(values)` loop -/
def decodePairs : List Bytes → List PropVal → List (Bytes × DPropVal) → Option (List (Bytes × DPropVal))
  | k :: ks, v :: vs, acc =>
    match decodePropVal v with
    | some d => decodePairs ks vs (mapInsert k d acc)
    | none => none
  | _, _, acc => some acc

/-- `PropertySet::try_from(payload::PropertySet)`; the map as an association list (its iteration
order is not observable through the host's types; the driver prints it sorted by key) -/
def decodePSet (ps : PSet) : Option (List (Bytes × DPropVal)) :=
  if ps.keys.length ≠ ps.values.length then none
  else decodePairs ps.keys ps.values []

/-! ### srad-app/src/metrics.rs -/

/-- the metric name constant `BDSEQ = "bdSeq"` -/
def BDSEQ : Bytes := [0x62, 0x64, 0x53, 0x65, 0x71]

/-- `i64::from_le_bytes(v.to_le_bytes())` -/
def toI64 (n : Nat) : Int := if n < 2 ^ 63 then (n : Int) else (n : Int) - 2 ^ 64

/-- `bdseq_from_payload_metrics`: the first metric named `bdSeq` decides -/
def bdseqFromMetrics : List Metric → Option Nat
  | [] => none
  | x :: t =>
    match x.name with
    | some name =>
      if name ≠ BDSEQ then bdseqFromMetrics t
      else
        match x.value with
        | some v =>
          match fromProto .i64 v with       -- `i64::try_from(MetricValue::from(x.clone()))`
          | .ok (.n b) =>
            if toI64 b > 255 ∨ toI64 b < 0 then none
            else some (b % 256)            -- `v as u8`
          | _ => none
        | none => none
    | none => bdseqFromMetrics t

/-- `MetricDetails` (π = the decoded property set) -/
structure Details (π : Type) where
  value : Option PV
  properties : Option π
  metadata : Option Meta
  timestamp : Nat
  isHistorical : Bool
  isTransient : Bool
  deriving DecidableEq, Repr

/-- `MetricBirthDetails` -/
structure BirthDetails where
  name : Bytes
  alias : Option Nat
  datatype : DT
  deriving DecidableEq, Repr

/-- `MetricId` -/
inductive MId where
  | name (s : Bytes)
  | alias (a : Nat)
  deriving DecidableEq, Repr

section
variable {π : Type} (decodePS : PSet → Option π)

/-- `metric_details_try_from_payload_metric!` -/
def metricDetails (m : Metric) : Except MErr (Details π) :=
  match m.timestamp with
  | none => .error .missingTimestamp
  | some timestamp =>
    match
      (match m.value with
       | some v => Except.ok (some v)
       | none =>
         match m.isNull with
         | some true => .ok none
         | some false => .error MErr.notNullNoValue
         | none => .error MErr.notNullNoValue) with
    | .error e => .error e
    | .ok value =>
      match
        (match m.properties with
         | some ps =>
           match decodePS ps with
           | some d => Except.ok (some d)
           | none => .error MErr.invalidProperties
         | none => .ok none) with
      | .error e => .error e
      | .ok properties =>
        .ok { value := value, properties := properties, metadata := m.metadata,
              timestamp := timestamp,
              isHistorical := m.isHistorical.getD false,
              isTransient := m.isTransient.getD false }

/-- the `let id = if let Some(alias) = x.alias { … } else if let Some(name) = x.name { … } else
{ return Err(MissingName) }` of the loop body below -/
def metricId (x : Metric) : Except MErr MId :=
  match x.alias with
  | some a => .ok (.alias a)
  | none =>
    match x.name with
    | some n => .ok (.name n)
    | none => .error .missingName

/-- `get_metric_id_and_details_from_payload_metrics`: the `for x in metrics` loop -/
def dataMetrics : List Metric → Except MErr (List (MId × Details π))
  | [] => .ok []
  | x :: t =>
    match metricId x with
    | .error e => .error e
    | .ok id =>
      match metricDetails decodePS x with
      | .error e => .error e
      | .ok d =>
        match dataMetrics t with
        | .error e => .error e
        | .ok r => .ok ((id, d) :: r)

/-- `get_metric_birth_details_from_birth_metrics`: the `for x in metrics` loop -/
def birthMetrics : List Metric → Except MErr (List (BirthDetails × Details π))
  | [] => .ok []
  | x :: t =>
    match x.datatype with
    | none => .error .missingDatatype
    | some c =>
      match DT.ofCode c with
      | none => .error .invalidDatatype
      | some datatype =>
        match x.name with
        | none => .error .missingName
        | some name =>
          match metricDetails decodePS x with
          | .error e => .error e
          | .ok d =>
            match birthMetrics t with
            | .error e => .error e
            | .ok r => .ok (({ name := name, alias := x.alias, datatype := datatype }, d) :: r)

/-! ### srad-app/src/events.rs: the six `TryFrom<Payload>` -/

structure NBirth (π : Type) where
  bdseq : Nat
  timestamp : Nat
  metrics : List (BirthDetails × Details π)
  deriving DecidableEq, Repr

structure NDeath where
  bdseq : Nat
  deriving DecidableEq, Repr

structure NData (π : Type) where
  seq : Nat
  timestamp : Nat
  metrics : List (MId × Details π)
  deriving DecidableEq, Repr

structure DBirth (π : Type) where
  seq : Nat
  timestamp : Nat
  metrics : List (BirthDetails × Details π)
  deriving DecidableEq, Repr

structure DDeath where
  seq : Nat
  timestamp : Nat
  deriving DecidableEq, Repr

structure DData (π : Type) where
  seq : Nat
  timestamp : Nat
  metrics : List (MId × Details π)
  deriving DecidableEq, Repr

def nbirthTryFrom (p : Payload) : Except PErr (NBirth π) :=
  match
    (match p.seq with
     | some seq => if seq ≠ 0 then Except.error PErr.invalidSeq else .ok ()
     | none => .error PErr.missingSeq) with
  | .error e => .error e
  | .ok () =>
    match p.timestamp with
    | none => .error .missingTimestamp
    | some timestamp =>
      match bdseqFromMetrics p.metrics with
      | none => .error .invalidBdseq
      | some bdseq =>
        match birthMetrics decodePS p.metrics with
        | .error e => .error (.metric e)
        | .ok md => .ok { bdseq := bdseq, timestamp := timestamp, metrics := md }

def ndeathTryFrom (p : Payload) : Except PErr NDeath :=
  match bdseqFromMetrics p.metrics with
  | none => .error .invalidBdseq
  | some bdseq => .ok { bdseq := bdseq }

def ndataTryFrom (p : Payload) : Except PErr (NData π) :=
  match p.seq with
  | none => .error .missingSeq
  | some s =>
    match p.timestamp with
    | none => .error .missingTimestamp
    | some timestamp =>
      match dataMetrics decodePS p.metrics with
      | .error e => .error (.metric e)
      | .ok md => .ok { seq := s % 256, timestamp := timestamp, metrics := md }   -- `seq as u8`

def dbirthTryFrom (p : Payload) : Except PErr (DBirth π) :=
  match p.seq with
  | none => .error .missingSeq
  | some s =>
    match p.timestamp with
    | none => .error .missingTimestamp
    | some timestamp =>
      match birthMetrics decodePS p.metrics with
      | .error e => .error (.metric e)
      | .ok md => .ok { seq := s % 256, timestamp := timestamp, metrics := md }

def ddeathTryFrom (p : Payload) : Except PErr DDeath :=
  match p.seq with
  | none => .error .missingSeq
  | some s =>
    match p.timestamp with
    | none => .error .missingTimestamp
    | some timestamp => .ok { seq := s % 256, timestamp := timestamp }

def ddataTryFrom (p : Payload) : Except PErr (DData π) :=
  match p.seq with
  | none => .error .missingSeq
  | some s =>
    match p.timestamp with
    | none => .error .missingTimestamp
    | some timestamp =>
      match dataMetrics decodePS p.metrics with
      | .error e => .error (.metric e)
      | .ok md => .ok { seq := s % 256, timestamp := timestamp, metrics := md }

/-! ### events.rs `TryFrom<NodeMessage>` / `TryFrom<DeviceMessage>`, eventloop.rs `handle_event` -/

/-- `srad_client::MessageKind` (`Other(String)` without its text: it is not read) -/
inductive Kind where
  | birth | death | cmd | data | other
  deriving DecidableEq, Repr

inductive NodeEvent (π : Type) where
  | birth (b : NBirth π)
  | death (d : NDeath)
  | data (d : NData π)
  deriving DecidableEq, Repr

inductive DeviceEvent (π : Type) where
  | birth (b : DBirth π)
  | death (d : DDeath)
  | data (d : DData π)
  deriving DecidableEq, Repr

/-- `NodeIdentifier` -/
structure NodeId where
  group : Bytes
  node : Bytes
  deriving DecidableEq, Repr

/-- `PayloadErrorDetails` -/
structure ErrDetails where
  nodeId : NodeId
  device : Option Bytes
  error : PErr
  deriving DecidableEq, Repr

/-- `MessageTryFromError` -/
inductive TryErr where
  | payloadError (d : ErrDetails)
  | unsupportedVerb
  deriving DecidableEq, Repr

/-- the `AppEvent`s a message can produce -/
inductive AppEvent (π : Type) where
  | node (id : NodeId) (e : NodeEvent π)
  | device (id : NodeId) (name : Bytes) (e : DeviceEvent π)
  | invalidPayload (d : ErrDetails)
  deriving DecidableEq, Repr

/-- `impl TryFrom<NodeMessage> for AppNodeEvent` -/
def nodeEventTryFrom (id : NodeId) (k : Kind) (p : Payload) : Except TryErr (NodeId × NodeEvent π) :=
  match
    (match k with
     | .birth =>
       match nbirthTryFrom decodePS p with
       | .ok v => Except.ok (NodeEvent.birth v)
       | .error e => .error (TryErr.payloadError { nodeId := id, device := none, error := e })
     | .death =>
       match ndeathTryFrom p with
       | .ok v => .ok (NodeEvent.death v)
       | .error e => .error (TryErr.payloadError { nodeId := id, device := none, error := e })
     | .cmd => .error TryErr.unsupportedVerb
     | .data =>
       match ndataTryFrom decodePS p with
       | .ok v => .ok (NodeEvent.data v)
       | .error e => .error (TryErr.payloadError { nodeId := id, device := none, error := e })
     | .other => .error TryErr.unsupportedVerb) with
  | .error e => .error e
  | .ok event => .ok (id, event)

/-- `impl TryFrom<DeviceMessage> for AppDeviceEvent` -/
def deviceEventTryFrom (id : NodeId) (name : Bytes) (k : Kind) (p : Payload) :
    Except TryErr (NodeId × Bytes × DeviceEvent π) :=
  match
    (match k with
     | .birth =>
       match dbirthTryFrom decodePS p with
       | .ok v => Except.ok (DeviceEvent.birth v)
       | .error e => .error (TryErr.payloadError { nodeId := id, device := some name, error := e })
     | .death =>
       match ddeathTryFrom p with
       | .ok v => .ok (DeviceEvent.death v)
       | .error e => .error (TryErr.payloadError { nodeId := id, device := some name, error := e })
     | .cmd => .error TryErr.unsupportedVerb
     | .data =>
       match ddataTryFrom decodePS p with
       | .ok v => .ok (DeviceEvent.data v)
       | .error e => .error (TryErr.payloadError { nodeId := id, device := some name, error := e })
     | .other => .error TryErr.unsupportedVerb) with
  | .error e => .error e
  | .ok event => .ok (id, name, event)

/-- `handle_node_message` + the `Event::Node` arm of `handle_event`: `none` = `poll` keeps
polling (no event for this message) -/
def handleNode (id : NodeId) (k : Kind) (p : Payload) : Option (AppEvent π) :=
  match nodeEventTryFrom decodePS id k p with
  | .ok (i, e) => some (.node i e)
  | .error (.payloadError d) => some (.invalidPayload d)
  | .error .unsupportedVerb => none

/-- `handle_device_message` + the `Event::Device` arm of `handle_event` -/
def handleDevice (id : NodeId) (name : Bytes) (k : Kind) (p : Payload) : Option (AppEvent π) :=
  match deviceEventTryFrom decodePS id name k p with
  | .ok (i, n, e) => some (.device i n e)
  | .error (.payloadError d) => some (.invalidPayload d)
  | .error .unsupportedVerb => none

end

/-! ### coarse outcome, for the regenerated decision table (`Generated/AdmitTable.lean`) -/

/-- what `poll` made of a message: an admitted event, an invalid-payload event with its error,
or nothing -/
inductive Shape where
  | admitted
  | invalid (e : PErr)
  | silent
  deriving DecidableEq, Repr

def shapeOf {π : Type} : Option (AppEvent π) → Shape
  | some (.node _ _) => .admitted
  | some (.device _ _ _) => .admitted
  | some (.invalidPayload d) => .invalid d.error
  | none => .silent

/-- one row of the table: device-level?, verb, payload (ids are fixed: they do not take part in
the decision) -/
def handleRow (device : Bool) (k : Kind) (p : Payload) : Shape :=
  if device then shapeOf (handleDevice decodePSet { group := [0x67], node := [0x6e] } [0x64] k p)
  else shapeOf (handleNode decodePSet { group := [0x67], node := [0x6e] } k p)

end Srad.Admit
