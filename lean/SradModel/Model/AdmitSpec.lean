/-
Vocabulary for stating C14 over the admission model: the declarative well-formedness conditions
transcribed from the property text (independent of the model's control flow: conjunctions and
quantifiers over the payload, no recursion over the metric vector, no error values), and the
"carries exactly the fields" relations between a payload and the admitted object.
-/
import SradModel.Model.Admit

namespace Srad.Admit
open Srad.Codec

/-- element-wise relation between two lists of the same length -/
inductive Pointwise {α β : Type} (R : α → β → Prop) : List α → List β → Prop where
  | nil : Pointwise R [] []
  | cons {a b l r} : R a b → Pointwise R l r → Pointwise R (a :: l) (b :: r)

/-- "valid datatype": one of the 35 codes (0 ..= 34) of the Sparkplug `DataType` enumeration -/
def ValidDatatype (c : Nat) : Prop := c ≤ 34

/-- every `u64` carried by a `LongValue` is a `u64` (typing assumption on model inputs) -/
def LongsAreU64 (ms : List Metric) : Prop :=
  ∀ m ∈ ms, ∀ n, m.value = some (.long n) → n < 2 ^ 64

/-- a property value needs a value or is_null = true, and a valid datatype when it names one -/
def PropValOk (v : PropVal) : Prop :=
  (v.value ≠ none ∨ v.isNull = some true) ∧ ∀ t, v.ty = some t → ValidDatatype t

/-- a decodable property set: as many values as keys, every value acceptable -/
def PSetOk (ps : PSet) : Prop :=
  ps.keys.length = ps.values.length ∧ ∀ v ∈ ps.values, PropValOk v

/-! ### well-formedness, as the property text words it -/

section
variable {π : Type} (decodePS : PSet → Option π)

/-- "every metric needs a timestamp and either a value or is_null = true"; a property set, when
one is attached, must be decodable (metrics.rs `InvalidProperties`; the property's anchor
"metric-level validation (null, datatype, name, properties)") -/
def MetricOk (m : Metric) : Prop :=
  m.timestamp ≠ none ∧
  (m.value ≠ none ∨ m.isNull = some true) ∧
  (∀ ps, m.properties = some ps → decodePS ps ≠ none)

/-- "birth metrics need name and valid datatype" -/
def BirthMetricOk (m : Metric) : Prop :=
  m.name ≠ none ∧ (∃ c, m.datatype = some c ∧ ValidDatatype c) ∧ MetricOk decodePS m

/-- "data metrics need name or alias" -/
def DataMetricOk (m : Metric) : Prop :=
  (m.name ≠ none ∨ m.alias ≠ none) ∧ MetricOk decodePS m

/-- "a 64-bit integer bdSeq metric in 0..=255", found by name (the first metric of that name) -/
def HasBdSeq (ms : List Metric) (b : Nat) : Prop :=
  ∃ pre m post, ms = pre ++ m :: post ∧ (∀ x ∈ pre, x.name ≠ some BDSEQ) ∧
    m.name = some BDSEQ ∧ m.value = some (.long b) ∧ b ≤ 255

/-- "an NBIRTH needs seq 0, a timestamp and a 64-bit integer bdSeq metric in 0..=255" + birth metrics -/
def WfNBirth (p : Payload) : Prop :=
  p.seq = some 0 ∧ p.timestamp ≠ none ∧ (∃ b, HasBdSeq p.metrics b) ∧
  ∀ m ∈ p.metrics, BirthMetricOk decodePS m

/-- "NDEATH needs such a bdSeq" -/
def WfNDeath (p : Payload) : Prop := ∃ b, HasBdSeq p.metrics b

/-- "DBIRTH … need seq and timestamp" + birth metrics -/
def WfDBirth (p : Payload) : Prop :=
  p.seq ≠ none ∧ p.timestamp ≠ none ∧ ∀ m ∈ p.metrics, BirthMetricOk decodePS m

/-- "DDEATH … need seq and timestamp" -/
def WfDDeath (p : Payload) : Prop := p.seq ≠ none ∧ p.timestamp ≠ none

/-- "NDATA and DDATA need seq and timestamp" + data metrics -/
def WfData (p : Payload) : Prop :=
  p.seq ≠ none ∧ p.timestamp ≠ none ∧ ∀ m ∈ p.metrics, DataMetricOk decodePS m

/-! ### the admitted object carries exactly the fields of the payload -/

/-- value, metadata, timestamp, flags (absent = false) and the decoded property set of `m` -/
def DetailsOf (m : Metric) (d : Details π) : Prop :=
  m.timestamp = some d.timestamp ∧
  d.value = m.value ∧
  d.metadata = m.metadata ∧
  d.isHistorical = (m.isHistorical == some true) ∧
  d.isTransient = (m.isTransient == some true) ∧
  d.properties = m.properties.bind decodePS

def BirthOf (m : Metric) (x : BirthDetails × Details π) : Prop :=
  m.name = some x.1.name ∧ x.1.alias = m.alias ∧ m.datatype = some x.1.datatype.code ∧
  DetailsOf decodePS m x.2

/-- the metric id is the alias when there is one, else the name -/
def IdOf (m : Metric) (id : MId) : Prop :=
  match m.alias, m.name with
  | some a, _ => id = .alias a
  | none, some n => id = .name n
  | none, none => False

def DataOf (m : Metric) (x : MId × Details π) : Prop :=
  IdOf m x.1 ∧ DetailsOf decodePS m x.2

/-! ### what `AppEventLoop::poll` makes of a message -/

/-- the verbs the host turns into events (BIRTH, DEATH, DATA); CMD and unknown verbs are skipped -/
def Supported (k : Kind) : Prop := k = .birth ∨ k = .death ∨ k = .data

/-- "well-formed for its type", node-level topics -/
def WfNode (k : Kind) (p : Payload) : Prop :=
  match k with
  | .birth => WfNBirth decodePS p
  | .death => WfNDeath p
  | .data => WfData decodePS p
  | .cmd => False
  | .other => False

/-- "well-formed for its type", device-level topics -/
def WfDevice (k : Kind) (p : Payload) : Prop :=
  match k with
  | .birth => WfDBirth decodePS p
  | .death => WfDDeath p
  | .data => WfData decodePS p
  | .cmd => False
  | .other => False

/-- the node event is the one for verb `k` and carries exactly the fields of `p` -/
def NodeEventOf (k : Kind) (p : Payload) : NodeEvent π → Prop
  | .birth x => k = .birth ∧ p.timestamp = some x.timestamp ∧ HasBdSeq p.metrics x.bdseq ∧
      Pointwise (BirthOf decodePS) p.metrics x.metrics
  | .death x => k = .death ∧ HasBdSeq p.metrics x.bdseq
  | .data x => k = .data ∧ (∃ s, p.seq = some s ∧ x.seq = s % 256) ∧
      p.timestamp = some x.timestamp ∧ Pointwise (DataOf decodePS) p.metrics x.metrics

/-- the device event is the one for verb `k` and carries exactly the fields of `p` -/
def DeviceEventOf (k : Kind) (p : Payload) : DeviceEvent π → Prop
  | .birth x => k = .birth ∧ (∃ s, p.seq = some s ∧ x.seq = s % 256) ∧
      p.timestamp = some x.timestamp ∧ Pointwise (BirthOf decodePS) p.metrics x.metrics
  | .death x => k = .death ∧ (∃ s, p.seq = some s ∧ x.seq = s % 256) ∧
      p.timestamp = some x.timestamp
  | .data x => k = .data ∧ (∃ s, p.seq = some s ∧ x.seq = s % 256) ∧
      p.timestamp = some x.timestamp ∧ Pointwise (DataOf decodePS) p.metrics x.metrics

end

end Srad.Admit
