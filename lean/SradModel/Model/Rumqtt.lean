/-
M14 — the glue crate `srad-client-rumqtt` (srad-client-rumqtt/src/client.rs) between srad's
`Client` / `EventLoop` traits and rumqttc 0.24 (v5 API).

Two parts.

(a) `poll_rumqtt` as a state machine. rumqttc is external: one call of
`rumqttc::v5::EventLoop::poll` has one of six *outcomes* the glue distinguishes (`RuEv`); the
theorems quantify over every sequence of outcomes. `pollStep` is one execution of
`poll_rumqtt`: new `ConnectionState`, the `Option<Event>` it returns, and whether it slept
(`tokio::time::sleep(1 s)`). `EventLoop::poll` (the trait method) loops until `Some`: `pollLoop`.
`topic_and_payload_to_event` is the parameter `toEvent` (instantiated by `Srad.Topic.parse` in the
driver, see C13).

(b) the pure conversions: QoS, the (topic, QoS, retain, payload) of each publish method, the will
conversion of `set_last_will`, the subscribe filter conversion, and the connect options fixed by
`EventLoop::new`.

Imports only Model files: linked into `srad_model`.
-/
import SradModel.Model.Topic

namespace Srad.Rumqtt
open Srad.StateJson (Bytes printCert)
open Srad.Topic (QoS Verb)

/-! ### (a) the poll state machine -/

/-- `enum ConnectionState` -/
inductive ConnState where
  | disconnected | manualDisconnected | connected
  deriving DecidableEq, Repr

/-- what one `self.el.poll().await` can be, as far as `poll_rumqtt` distinguishes:
`Ok(Incoming(ConnAck))`, `Ok(Incoming(Disconnect))`, `Ok(Incoming(Publish))`,
`Ok(Outgoing(Disconnect))`, any other `Ok(_)`, `Err(_)` -/
inductive RuEv where
  | connAck
  | incomingDisconnect
  | incomingPublish (topic payload : Bytes)
  | outgoingDisconnect
  | otherEvent
  | error
  deriving DecidableEq, Repr

/-- `srad_client::Event` as produced by the glue: `Online`, `Offline`, or the value of
`topic_and_payload_to_event` -/
inductive SradEv (E : Type) where
  | online | offline
  | message (e : E)
  deriving DecidableEq, Repr

/-- one execution of `poll_rumqtt`: (new state, returned `Option<Event>`, slept 1 s) -/
def pollStep {E : Type} (toEvent : Bytes → Bytes → E) :
    ConnState → RuEv → ConnState × Option (SradEv E) × Bool
  | _, .connAck => (.connected, some .online, false)
  | _, .incomingDisconnect => (.disconnected, some .offline, false)
  | s, .incomingPublish t p => (s, some (.message (toEvent t p)), false)
  | _, .outgoingDisconnect => (.manualDisconnected, some .offline, false)
  | s, .otherEvent => (s, none, false)
  | .connected, .error => (.disconnected, some .offline, false)
  | .disconnected, .error => (.disconnected, none, true)
  | .manualDisconnected, .error => (.manualDisconnected, none, false)

/-- one row of the execution log of a sequence of outcomes -/
structure Step (E : Type) where
  pre : ConnState
  ev : RuEv
  post : ConnState
  report : Option (SradEv E)
  slept : Bool

/-- the log of `poll_rumqtt` executions on the outcomes `tr` from state `s` -/
def stepLog {E : Type} (f : Bytes → Bytes → E) : ConnState → List RuEv → List (Step E)
  | _, [] => []
  | s, e :: t =>
    let r := pollStep f s e
    { pre := s, ev := e, post := r.1, report := r.2.1, slept := r.2.2 } :: stepLog f r.1 t

/-- state after the outcomes -/
def finalState {E : Type} (f : Bytes → Bytes → E) : ConnState → List RuEv → ConnState
  | s, [] => s
  | s, e :: t => finalState f (pollStep f s e).1 t

/-- the events handed to the caller of `poll`, in order -/
def reports {E : Type} (f : Bytes → Bytes → E) : ConnState → List RuEv → List (SradEv E)
  | _, [] => []
  | s, e :: t =>
    match (pollStep f s e).2.1 with
    | some r => r :: reports f (pollStep f s e).1 t
    | none => reports f (pollStep f s e).1 t

/-- number of 1 s sleeps -/
def sleepCount {E : Type} (f : Bytes → Bytes → E) : ConnState → List RuEv → Nat
  | _, [] => 0
  | s, e :: t => (if (pollStep f s e).2.2 then 1 else 0) + sleepCount f (pollStep f s e).1 t

/-- `EventLoop::poll`: loop `poll_rumqtt` until it returns `Some`. `none`: the outcomes ran out
before an event was produced (the real call is still pending). Result: state, the event, the
outcomes not consumed, sleeps on the way. -/
def pollLoop {E : Type} (f : Bytes → Bytes → E) :
    ConnState → List RuEv → Option (ConnState × SradEv E × List RuEv × Nat)
  | _, [] => none
  | s, e :: t =>
    let r := pollStep f s e
    match r.2.1 with
    | some ev => some (r.1, ev, t, if r.2.2 then 1 else 0)
    | none =>
      match pollLoop f r.1 t with
      | some (s', ev, rest, n) => some (s', ev, rest, n + (if r.2.2 then 1 else 0))
      | none => none

/-! counting vocabulary for the theorems -/

def isOnline {E : Type} : SradEv E → Bool
  | .online => true | _ => false
def isOffline {E : Type} : SradEv E → Bool
  | .offline => true | _ => false
def msgOf {E : Type} : SradEv E → Option E
  | .message e => some e | _ => none

def onlineCount {E : Type} (l : List (SradEv E)) : Nat := (l.filter isOnline).length
def offlineCount {E : Type} (l : List (SradEv E)) : Nat := (l.filter isOffline).length

/-- the last `Online` / `Offline` in a list of reports (`true` = Online) -/
def lastConn {E : Type} : List (SradEv E) → Option Bool
  | [] => none
  | x :: t =>
    match lastConn t with
    | some b => some b
    | none => match x with
      | .online => some true
      | .offline => some false
      | .message _ => none

def isConnAck : RuEv → Bool
  | .connAck => true | _ => false
/-- a DISCONNECT packet event, incoming or outgoing -/
def isDisc : RuEv → Bool
  | .incomingDisconnect => true | .outgoingDisconnect => true | _ => false
def pubOf {E : Type} (f : Bytes → Bytes → E) : RuEv → Option E
  | .incomingPublish t p => some (f t p) | _ => none

def connAckCount (tr : List RuEv) : Nat := (tr.filter isConnAck).length
def discCount (tr : List RuEv) : Nat := (tr.filter isDisc).length

/-- the first outcome of `tr` that is a DISCONNECT event or an error (publishes and other events
skipped) -/
def firstLoss : List RuEv → Option RuEv
  | [] => none
  | .incomingDisconnect :: _ => some .incomingDisconnect
  | .outgoingDisconnect :: _ => some .outgoingDisconnect
  | .error :: _ => some .error
  | _ :: t => firstLoss t

/-! ### (b) the pure conversions -/

/-- `rumqttc::v5::mqttbytes::QoS` -/
inductive MqttQoS where
  | atMostOnce | atLeastOnce | exactlyOnce
  deriving DecidableEq, Repr

/-- the two QoS bits on the wire -/
def MqttQoS.wire : MqttQoS → Nat
  | .atMostOnce => 0 | .atLeastOnce => 1 | .exactlyOnce => 2

/-- `qos_to_mqtt_qos` -/
def qosToMqtt : QoS → MqttQoS
  | .atMostOnce => .atMostOnce
  | .atLeastOnce => .atLeastOnce

/-- which publish method / message type -/
inductive PubKind where
  | node (v : Verb)     -- publish_node_message with NodeTopic.message_type = v
  | device (v : Verb)   -- publish_device_message
  | state               -- publish_state_message
  deriving DecidableEq, Repr

/-- `get_publish_quality_retain()` of the topic (node, device) or of the payload (state) -/
def pubQosRetain : PubKind → QoS × Bool
  | .node v => Srad.Topic.nodeQosRetain v
  | .device v => Srad.Topic.deviceQosRetain v
  | .state => Srad.Topic.stateQosRetain

/-- a PUBLISH request as handed to rumqttc (`properties = None`, `dup = false`) -/
structure WirePublish where
  topic : Bytes
  qos : MqttQoS
  retain : Bool
  payload : Bytes
  deriving DecidableEq, Repr

/-- `rumqttc::valid_topic`: no `+`, no `#` -/
def validTopic (t : Bytes) : Bool := !(t.contains 0x2b || t.contains 0x23)

/-- what `Client::publish` / `try_publish` hand to rumqttc for message kind `k`, topic string
`topic` (the `topic` field of the srad topic struct) and encoded payload `payload`
(`payload.encode_to_vec()` resp. `Vec::<u8>::from(StatePayload)`) -/
def wirePublish (k : PubKind) (topic payload : Bytes) : WirePublish :=
  { topic := topic, qos := qosToMqtt (pubQosRetain k).1, retain := (pubQosRetain k).2, payload := payload }

/-- rumqttc's client refuses (`Err`, nothing queued) a topic with wildcards; otherwise the
request is queued (blocking `publish`) or queued if there is room (`try_publish`) -/
def publishRequest (k : PubKind) (topic payload : Bytes) : Option WirePublish :=
  if validTopic topic then some (wirePublish k topic payload) else none

/-- `Vec::<u8>::from(StatePayload)` -/
def statePayloadBytes (online : Bool) (ts : Nat) : Bytes := printCert online ts

/-- `try_publish` on a request queue of capacity `cap` holding `queued` requests while nobody
receives: `true` = `Ok(())` -/
def tryAccepts (cap queued : Nat) : Bool := decide (queued < cap)

/-- results of `n` successive `try_publish` calls (valid topic) starting from `queued` -/
def tryMany (cap : Nat) : Nat → Nat → List Bool
  | _, 0 => []
  | queued, n + 1 =>
    if tryAccepts cap queued then true :: tryMany cap (queued + 1) n
    else false :: tryMany cap queued n

/-- `srad_client::LastWill` -/
structure LastWill where
  topic : Bytes
  retain : Bool
  qos : QoS
  payload : Bytes
  deriving DecidableEq, Repr

/-- `rumqttc::v5::mqttbytes::v5::LastWill` (`properties` is always `None` in the glue) -/
structure MqttWill where
  topic : Bytes
  message : Bytes
  qos : MqttQoS
  retain : Bool
  hasProperties : Bool
  deriving DecidableEq, Repr

/-- the conversion inside `set_last_will` -/
def convertWill (w : LastWill) : MqttWill :=
  { topic := w.topic, message := w.payload, qos := qosToMqtt w.qos, retain := w.retain, hasProperties := false }

/-- `srad_types::topic::Topic` -/
inductive FilterTopic where
  | nodeTopic (topic : Bytes)
  | deviceTopic (topic : Bytes)
  | state (topic : Bytes)
  | node (group node : Bytes)
  | group (id : Bytes)
  | fullNamespace
  deriving DecidableEq, Repr

def PLUS : UInt8 := 0x2b
def HASH : UInt8 := 0x23

/-- `impl From<Topic> for String` -/
def topicString : FilterTopic → Bytes
  | .nodeTopic t => t
  | .deviceTopic t => t
  | .state t => t
  | .node g n =>
    Srad.Topic.SPBV10 ++ Srad.Topic.SLASH :: (g ++ Srad.Topic.SLASH :: PLUS :: Srad.Topic.SLASH :: (n ++ [Srad.Topic.SLASH, HASH]))
  | .group id =>
    Srad.Topic.SPBV10 ++ Srad.Topic.SLASH :: (id ++ [Srad.Topic.SLASH, PLUS, Srad.Topic.SLASH, HASH])
  | .fullNamespace => Srad.Topic.SPBV10 ++ [Srad.Topic.SLASH, HASH]

/-- `srad_types::topic::TopicFilter` -/
structure TopicFilter where
  topic : FilterTopic
  qos : QoS
  deriving DecidableEq, Repr

/-- `rumqttc::v5::mqttbytes::v5::Filter` as built by `Filter::new` (`nolocal = false`,
`preserve_retain = false`, `retain_forward_rule = OnEverySubscribe`) -/
structure MqttFilter where
  path : Bytes
  qos : MqttQoS
  nolocal : Bool
  preserveRetain : Bool
  deriving DecidableEq, Repr

/-- `topic_filter_to_mqtt_filter` -/
def convertFilter (tf : TopicFilter) : MqttFilter :=
  { path := topicString tf.topic, qos := qosToMqtt tf.qos, nolocal := false, preserveRetain := false }

/-- `subscribe_many`: the filters of the one SUBSCRIBE request, in order -/
def subscribeRequest (tfs : List TopicFilter) : List MqttFilter := tfs.map convertFilter

/-- the part of `MqttOptions` the glue touches; everything else (`X`: broker address, client id,
keep alive, credentials, the other connect properties, ...) is carried along unchanged -/
structure ConnOpts (X : Type) where
  cleanStart : Bool
  sessionExpiry : Option Nat
  will : Option MqttWill
  other : X

/-- `EventLoop::new`: clean start, session expiry interval 0; nothing else is touched -/
def newOptions {X : Type} (o : ConnOpts X) : ConnOpts X :=
  { o with cleanStart := true, sessionExpiry := some 0 }

/-- `set_last_will` -/
def setLastWill {X : Type} (o : ConnOpts X) (w : LastWill) : ConnOpts X :=
  { o with will := some (convertWill w) }

/-- what the user of the glue's `EventLoop` can make happen to the options: register a will,
or poll, during which rumqttc may open a connection (`connect`: it sends a CONNECT built from
the current options) or do anything else (`other`) -/
inductive Call where
  | setLastWill (w : LastWill)
  | connect
  | other
  deriving DecidableEq, Repr

/-- the options carried by the successive CONNECT packets -/
def connectLog {X : Type} : ConnOpts X → List Call → List (ConnOpts X)
  | _, [] => []
  | o, .setLastWill w :: t => connectLog (setLastWill o w) t
  | o, .connect :: t => o :: connectLog o t
  | o, .other :: t => connectLog o t

/-- options after the calls -/
def optsAfter {X : Type} : ConnOpts X → List Call → ConnOpts X
  | o, [] => o
  | o, .setLastWill w :: t => optsAfter (setLastWill o w) t
  | o, _ :: t => optsAfter o t

/-- the will registered by the last `set_last_will` among `calls`, else `init` -/
def lastWillOf (init : Option MqttWill) : List Call → Option MqttWill
  | [] => init
  | .setLastWill w :: t => lastWillOf (some (convertWill w)) t
  | _ :: t => lastWillOf init t

end Srad.Rumqtt
