/-
M12, continued — FAULT-FREE SCHEDULES of the closed loop (`Model/Loop.lean`): executable vocabulary
for `Props/C08Sched.lean`. Definitions only (all `Bool` / computable, so that examples close by
`decide`).

* `Action.ff` / `FaultFree`: the fault-free actions — FIFO delivery to the host (`deliver 0`),
  delivery of a pending rebirth NCMD to the node, the clock advancing by any amount (a due reorder
  timer fires), `publishNode`, `publishDev d`, `hostConnect`, `nodeConnect` — in ANY interleaving and
  multiplicity. Excluded (faults / operator actions): `deliver k` with `k > 0` (reordering),
  `duplicate`, `drop`, `dropNcmd`, both disconnects, `enable`, `disable`, `manualRebirth`.
  The predicate does not look at the state: `publishDev d` of a device that is not birthed,
  `hostConnect` / `nodeConnect` while connected, `deliver 0` / `deliverNcmd` with nothing in flight
  are no-ops of `Sys.step`, so allowing them only enlarges the set of schedules.
* `Sys.flush`: deliver everything in flight towards the host, in order (no NCMD, no clock).
* `Sys.InSyncView`: `InSync` without its last clause (the one about the effects of the last
  publishing round): the host's view agrees with the node and nothing is in flight.
* `Sys.syncUpTo`: "in sync up to what is still in flight" — the invariant of every fault-free
  schedule from an in-sync state.
* `Sys.gRound` / `Sys.gSettle`: a settling round whose publishes are INTERLEAVED with FIFO deliveries
  in any way (`Sys.roundOk`), and sequences of such rounds.
-/
import SradModel.Model.Loop

namespace Srad.Loop
open Srad Srad.Host

/-- the fault-free actions (see the file header) -/
def Action.ff : Action → Bool
  | .deliver 0 | .deliverNcmd | .advance _ | .publishNode | .publishDev _ | .hostConnect | .nodeConnect => true
  | _ => false

/-- a fault-free schedule: any list of fault-free actions -/
def FaultFree (σ : List Action) : Bool := σ.all Action.ff

/-- a publish of the node -/
def Action.isPub : Action → Bool
  | .publishNode | .publishDev _ => true
  | _ => false

/-- a publish or a FIFO delivery to the host -/
def Action.isPubDel : Action → Bool
  | .publishNode | .publishDev _ | .deliver 0 => true
  | _ => false

/-- **the clock advances before every delivery of a rebirth NCMD to the node**: `ticked b σ`, where
`b` says whether the clock has advanced (by at least 1) since the last NCMD delivery. (Two rebirths
within one clock reading carry the same NBIRTH timestamp; the host ignores the second.) -/
def ticked : Bool → List Action → Bool
  | _, [] => true
  | b, .advance k :: t => ticked (b || decide (0 < k)) t
  | b, .deliverNcmd :: t => b && ticked false t
  | b, _ :: t => ticked b t

/-- `msgs` is a FIFO run of data messages numbered `e`, `e+1`, … (`u8`), none stamped before the
host's birth / staleness stamps `bts` / `sts`, DDATA only of devices in `names` -/
def dataRun (bts sts : Nat) (names : List Nat) : Nat → List Msg → Bool
  | _, [] => true
  | e, .ndata seq ts _ :: t =>
    decide (seq = e) && decide (bts ≤ ts) && decide (sts ≤ ts) && dataRun bts sts names ((e + 1) % 256) t
  | e, .ddata d seq ts _ :: t =>
    names.contains d && decide (seq = e) && decide (bts ≤ ts) && decide (sts ≤ ts) &&
      dataRun bts sts names ((e + 1) % 256) t
  | _, _ :: _ => false

/-- the number the host expects after a run of `msgs` that starts at `e` -/
def runEnd : Nat → List Msg → Nat
  | e, [] => e
  | e, _ :: t => runEnd ((e + 1) % 256) t

namespace Sys

/-- deliver everything in flight towards the host, in order -/
def flush (s : Sys) : Sys := deliverAll s.toHost.length s

/-- `InSync` without the clause about the last round's effects: both sides connected, the node
online and birthed, the host holds it birthed, expects exactly the node's next sequence number with
nothing buffered and no timer, holds exactly the enabled devices birthed and every other device it
knows stale, and nothing is in flight in either direction -/
def InSyncView (s : Sys) : Bool :=
  s.nodeConn && s.hostConn && s.node.online && s.node.birthed &&
  decide (s.host.life = .birthed) &&
  decide (s.host.reseq = { buf := [], next := (s.node.seq + 1) % 256, mode := .good }) &&
  decide (s.host.timer = .none) &&
  s.node.devs.all (fun x => !x.enabled || decide (Host.findDev x.name s.host.devices = some .birthed)) &&
  s.host.devices.all (fun p => decide (p.2 = .stale) || s.node.enabledNames.contains p.1) &&
  s.toHost.isEmpty && decide (s.toNode = 0)

/-- the last clause of `InSync` -/
def lastRoundIs (s : Sys) (last : List Host.Eff) : Bool :=
  let tail := s.sent.drop (s.sent.length - (s.node.enabledNames.length + 1))
  decide (tail.map Msg.dataShape = some none :: s.node.enabledNames.map (fun d => some (some d))) &&
  decide (last = tail.filterMap Msg.dataEff)

/-- **in sync up to what is still in flight**: as `InSyncView`, except that the host expects the
number of the OLDEST message in flight, the messages in flight are a FIFO run of NDATA / DDATA (of
enabled devices) numbered consecutively from there up to the node's current number, none of them
older than the host's record, and the host's stamps are not in the future. No rebirth NCMD is in
flight. (With nothing in flight this is `InSyncView` plus clock coherence.) -/
def syncUpTo (s : Sys) : Bool :=
  s.nodeConn && s.hostConn && s.node.online && s.node.birthed &&
  decide (s.host.life = .birthed) &&
  decide (s.host.reseq.buf = []) && decide (s.host.reseq.mode = .good) &&
  decide (s.host.timer = .none) &&
  s.node.devs.all (fun x => !x.enabled || decide (Host.findDev x.name s.host.devices = some .birthed)) &&
  s.host.devices.all (fun p => decide (p.2 = .stale) || s.node.enabledNames.contains p.1) &&
  decide (s.toNode = 0) &&
  decide (s.host.birthTs ≤ s.clock) && decide (s.host.staleTs ≤ s.clock) &&
  dataRun s.host.birthTs s.host.staleTs s.node.enabledNames s.host.reseq.next s.toHost &&
  decide (runEnd s.host.reseq.next s.toHost = (s.node.seq + 1) % 256)

/-- the node's bookkeeping is consistent: a device flagged as birthed is enabled (a fact of every
reachable state in which the node is birthed, `NodeInv`) -/
def flagsOk (s : Sys) : Bool := s.node.devs.all (fun x => !x.flag || x.enabled)

/-- the two delivery phases of a settling round (= `Sys.firstPhase` of `Proofs/LoopReach.lean`):
reconnect; deliver everything (NCMDs and the births they cause included); let a running reorder
timeout expire; deliver everything -/
def quiesce (s : Sys) : Sys := drain (timerPhase (drain (reconnect s)))

/-- the publishes of one round, in `settle`'s order -/
def roundPubs (s : Sys) : List Action := .publishNode :: s.node.enabledNames.map Action.publishDev

/-- `σ` is an interleaving of the round's publishes (one on the node metric, one per enabled device,
in `settle`'s order) with any number of FIFO deliveries `deliver 0` at any positions -/
def roundOk (s : Sys) (σ : List Action) : Bool :=
  σ.all Action.isPubDel && decide (σ.filter Action.isPub = s.roundPubs)

/-- a settling round whose publishing phase is the schedule `σ`: delivery phases as in `settle`, the
clock advances, `σ` runs, everything still in flight is delivered (`drain`). Returns the host's
effects since the publishing phase began. -/
def gRound (σ : List Action) (s : Sys) : Sys × List Host.Eff :=
  let p := quiesce s
  let t := drain ((p.step (.advance 1)).run σ)
  (t, t.effs.drop p.effs.length)

/-- one generalised round per schedule of the list; returns the last round's effects -/
def gSettle : List (List Action) → Sys → Sys × List Host.Eff
  | [], s => (s, [])
  | [σ], s => gRound σ s
  | σ :: ρ :: rest, s => gSettle (ρ :: rest) (gRound σ s).1

/-- every schedule of the list is a valid round schedule for the state its round starts in -/
def roundsOk : List (List Action) → Sys → Bool
  | [], _ => true
  | σ :: rest, s => roundOk s σ && roundsOk rest (gRound σ s).1

end Sys

end Srad.Loop
