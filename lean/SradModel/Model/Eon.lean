/-
M11 — the edge node (`srad-eon/src/node.rs`, `device.rs`, `metric.rs`) as a labelled transition
system at await / client-hand-over granularity.

Tasks: the event-loop task (`EoN::run`), the node task (`Node::run`), one task per device
(`Device::run`), one short-lived task per user API call (publish, cancel). A *step* runs one task
from one scheduling point to the next; every client call is a *hand-over* (appended to the log
`calls` together with the client's decision: accept, reject, or park = back-pressure) and the task
only continues in a later step once the call is resolved. Shared state is `EoNState`
(online, birthed, seq, bdseq, running) and each device's `birthed` flag. Channels are modelled with
their real capacities (`client_state` 1, `rebirth` 1 with try_send, `stop` 1, the rest unbounded).
User code (metric managers) is reduced to the observable moments it is called; its `on_ncmd` /
`on_dcmd` callbacks may park.

`step s t dec` is a partial function (none = task `t` is not enabled); `dec` is the client's
decision, consulted only if the step hands a call over. The observations a step emits are what
the harness records at the trait objects (`Obs`).
Import-free: linked into `srad_model`.
-/
namespace Srad.Eon

inductive BT where | birth | rebirth
  deriving DecidableEq, Repr, Hashable

inductive Dec where | acc | rej | park
  deriving DecidableEq, Repr, Hashable

/-- kinds of client calls -/
inductive CK where
  | sub | nbirth | ndeath | ndata | dbirth | ddeath | ddata | disconnect
  deriving DecidableEq, Repr, Hashable

/-- a hand-over: one call on the `Client` trait object -/
structure Call where
  kind : CK
  dev : Option Nat := none
  seq : Option Nat := none
  bd : Option Nat := none
  isTry : Bool := false
  res : Option Bool := none      -- none while parked
  -- ghost snapshot at hand-over time (used by the theorems only)
  gOnline : Bool := false
  gBirthed : Bool := false
  gFlag : Bool := false          -- the device's birthed flag (device calls)
  deriving DecidableEq, Repr, Hashable

inductive URes where
  | ok | noMetrics | offline | unbirthed | cancelled | duplicate
  deriving DecidableEq, Repr, Hashable

inductive EvName where
  | online | offline | node | device | other
  deriving DecidableEq, Repr, Hashable

/-- what the harness can observe at the trait objects -/
inductive Obs where
  | call (id : Nat) (kind : CK) (dev seq bd : Option Nat) (isTry : Bool) (dec : Dec)
  | resolved (id : Nat) (ok : Bool)          -- a parked call is resolved by the client
  | will (bd : Nat)
  | poll
  | polled (e : EvName)
  | ures (j : Nat) (r : URes)
  | cbNcmd
  | cbDcmd (d : Nat)
  | bNode
  | bDev (d : Nat)
  | runReturned
  deriving DecidableEq, Repr, Hashable

/-- events the MQTT event loop can deliver -/
inductive Ev where
  | online | offline
  | ncmd (rb : Bool) (ts : Bool)     -- rebirth requested (by the recognition rule), payload timestamp present
  | dcmd (d : Nat) (ts : Bool)
  | other
  deriving DecidableEq, Repr, Hashable

def Ev.name : Ev → EvName
  | .online => .online | .offline => .offline | .ncmd _ _ => .node | .dcmd _ _ => .device | .other => .other

/-- messages on the `client_state` channel (capacity 1); `o` names the oneshot for the new will -/
inductive CS where
  | online | offline (o : Nat) | stopped
  deriving DecidableEq, Repr, Hashable

inductive NS where   -- NodeStateMessage
  | birth (bt : BT) (ep : Nat) | death | removed
  deriving DecidableEq, Repr, Hashable

inductive HR where   -- DeviceHandleRequest
  | enable | disable | rebirth
  deriving DecidableEq, Repr, Hashable

/-- where the event-loop task is -/
inductive LoopPc where
  | start
  | sel                         -- top of the main loop: about to `select!`
  | polling                     -- `poll()` was called, nothing returned yet
  | sendCs (m : CS)             -- blocked in `client_state_tx.send` (main loop)
  | awaitWill (o : Nat)         -- awaiting the oneshot with the new will (main loop)
  | stopCheck                   -- stop received: `while is_online`
  | stopPolling
  | stopSendCs (o : Nat)
  | stopAwaitWill (o : Nat)
  | forceSendCs (o : Nat)       -- 1 s timeout elapsed: forced `on_offline`
  | forceAwaitWill (o : Nat)
  | sendStopped
  | done
  deriving DecidableEq, Repr, Hashable

/-- where the node task is -/
inductive NodePc where
  | idle
  | waitSub (id : Nat)
  | subDone (ok : Bool)
  | birthStart (bt : BT) (fromCmd : Option Nat)     -- about to run `node_birth`; `fromCmd` = wall reading of the NCMD
  | waitNb (id : Nat) (bt : BT) (fromCmd : Option Nat)
  | nbDone (ok : Bool) (bt : BT) (fromCmd : Option Nat)
  | inCb (rb : Bool)                                -- inside `on_ncmd`
  | done
  deriving DecidableEq, Repr, Hashable

inductive DevPc where
  | idle
  | waitBirth (id : Nat) (ep : Nat)
  | birthDone (ok : Bool) (ep : Nat)
  | waitDeath (id : Nat) (thenDone : Bool)
  | inCb
  | done
  deriving DecidableEq, Repr, Hashable

structure Dev where
  uid : Nat                      -- incarnation: unique per registration
  name : Nat
  registered : Bool := true      -- still in the `DeviceMap`
  enabled : Bool := false
  flag : Bool := false           -- `DeviceState::birthed`
  epoch : Nat := 0               -- `DeviceState::birth_epoch`: node birth the device was birthed in
  pc : DevPc := .idle
  nsq : List NS := []
  hq : List HR := []
  mq : List Bool := []           -- DCMDs: payload timestamp present?
  deriving DecidableEq, Repr, Hashable

inductive PubTarget where | node | dev (d : Nat)
  deriving DecidableEq, Repr, Hashable

inductive UPc where
  | start
  | wait (id : Nat)
  | cancelStop          -- cancel: NDEATH handed over, about to signal stop
  | cancelDisc
  | done
  deriving DecidableEq, Repr, Hashable

inductive UKind where
  | pub (t : PubTarget) (isTry : Bool) (n : Nat)
  | cancel
  deriving DecidableEq, Repr, Hashable

structure UCall where
  j : Nat
  kind : UKind
  pc : UPc := .start
  deriving DecidableEq, Repr, Hashable

structure St where
  -- EoNState
  online : Bool := false
  birthed : Bool := false
  seq : Nat := 0
  bdseq : Nat := 0
  running : Bool := false
  stopping : Bool := false          -- set by `cancel`
  epoch : Nat := 0                  -- number of node births started (`birth_epoch`)
  -- configuration / clocks
  cooldown : Nat := 0
  wall : Nat := 0
  lastRebirthReq : Nat := 0
  -- event loop side
  inbox : List Ev := []             -- events the MQTT event loop will return from `poll`
  will : Option Nat := none         -- bdSeq of the registered will
  loop : LoopPc := .start
  stopDeadline : Option Nat := none
  -- channels
  cs : Option CS := none
  rebirthQ : Bool := false
  msgQ : List (Bool × Bool) := []   -- NCMDs (rb, ts)
  stop : Bool := false
  oneshots : List (Nat × Option Nat) := []   -- replies: (o, some bd) = will sent, (o, none) = sender dropped
  nextOneshot : Nat := 0
  -- node task
  node : NodePc := .idle
  nodeCbPark : Bool := false
  devCbPark : List Nat := []        -- device names whose `on_dcmd` callback parks (harness gate, by name)
  -- devices and user calls
  devs : List Dev := []
  ucalls : List UCall := []
  -- the client: every hand-over so far, in order
  calls : List Call := []
  deriving DecidableEq, Repr, Hashable

def init (cooldown : Nat) : St := { cooldown := cooldown }

/-- `EoNState::get_next_seq_and_epoch(required_epoch)`: the sequence number is only allocated
if the node is online and birthed and (when an epoch is required) the node birth has not
changed since -/
def nextSeqIn (s : St) (req : Option Nat) : Except URes (St × Nat) :=
  if !s.online then .error .offline
  else if !s.birthed then .error .unbirthed
  else if (match req with | some e => e != s.epoch | none => false) then .error .unbirthed
  else
    let n := (s.seq + 1) % 256
    .ok ({ s with seq := n }, n)

/-- `EoNState::get_next_seq` -/
def nextSeq (s : St) : Except URes (St × Nat) := nextSeqIn s none

/-- the incarnation a `DeviceHandle` for name `d` refers to: the one currently in the device map,
else the most recent live one (the harness keeps the latest handle per name) -/
def findDev (d : Nat) (l : List Dev) : Option Dev :=
  match l.find? (fun x => x.name == d && x.registered && x.pc != .done) with
  | some x => some x
  | none => l.reverse.find? (fun x => x.name == d && x.pc != .done)

def findUid (u : Nat) (l : List Dev) : Option Dev := l.find? (fun x => x.uid == u)

def setDev (x : Dev) : List Dev → List Dev
  | [] => []
  | y :: t => if y.uid == x.uid then x :: t else y :: setDev x t

/-- hand a call over to the client: log it with the decision; returns its id and the observation -/
def handOver (s : St) (c : Call) (dec : Dec) : St × Nat × Obs :=
  let id := s.calls.length
  let dec := if c.isTry && dec == .park then Dec.rej else dec      -- a try_ call cannot wait
  let res := match dec with | .acc => some true | .rej => some false | .park => none
  let c := { c with res := res, gOnline := s.online, gBirthed := s.birthed }
  ({ s with calls := s.calls ++ [c] }, id, .call id c.kind c.dev c.seq c.bd c.isTry dec)

def callRes (s : St) (id : Nat) : Option Bool := (s.calls[id]?).bind (·.res)

/-- push a `NodeStateMessage` to every registered device (`birth_devices` / `on_death`) -/
def pushAll (m : NS) (l : List Dev) : List Dev :=
  l.map fun d => if d.registered && d.pc != .done then { d with nsq := d.nsq ++ [m] } else d

/-! ### the event-loop task -/

def newOneshot (s : St) : St × Nat := ({ s with nextOneshot := s.nextOneshot + 1 }, s.nextOneshot)

def reply? (s : St) (o : Nat) : Option (Option Nat) := (s.oneshots.find? (·.1 == o)).map (·.2)

/-- `EoN::handle_event` for an event just returned by `poll` (main loop) -/
def loopHandle (s : St) (e : Ev) : St :=
  match e with
  | .online =>
    match s.cs with
    | none => { s with cs := some .online, loop := .sel }
    | some _ => { s with loop := .sendCs .online }
  | .offline =>
    let (s, o) := newOneshot s
    match s.cs with
    | none => { s with cs := some (.offline o), loop := .awaitWill o }
    | some _ => { s with loop := .sendCs (.offline o) }
  | .ncmd rb ts => { s with msgQ := s.msgQ ++ [(rb, ts)], loop := .sel }
  | .dcmd d ts =>
    match s.devs.find? (fun x => x.name == d && x.registered && x.pc != .done) with
    | some x => { s with devs := setDev { x with mq := x.mq ++ [ts] } s.devs, loop := .sel }
    | none => { s with loop := .sel }
  | .other => { s with loop := .sel }

def stepLoop (s : St) : List (St × List Obs) :=
  match s.loop with
  | .start =>
    [({ s with running := true, will := some s.bdseq, loop := .sel }, [.will s.bdseq])]
  | .sel =>
    -- unbiased select: either branch may be polled first
    (if s.stop then [({ s with stop := false, loop := .stopCheck, stopDeadline := some (s.wall + 1000) }, [])] else []) ++
    [({ s with loop := .polling }, [.poll])]
  | .polling =>
    (if s.stop then [({ s with stop := false, loop := .stopCheck, stopDeadline := some (s.wall + 1000) }, [])] else []) ++
    (match s.inbox with
     | e :: rest => [(loopHandle { s with inbox := rest } e, [.polled e.name])]
     | [] => [])
  | .sendCs m =>
    match s.cs with
    | none =>
      [({ s with cs := some m, loop := (match m with | .offline o => .awaitWill o | _ => .sel) }, [])]
    | some _ => []
  | .awaitWill o =>
    match reply? s o with
    | some (some bd) => [({ s with will := some bd, loop := .sel }, [.will bd])]
    | some none => [({ s with loop := .sel }, [])]
    | none => []
  | .stopCheck =>
    if !s.online then [({ s with loop := .sendStopped }, [])]
    else [({ s with loop := .stopPolling }, [.poll])]
  | .stopPolling =>
    match s.inbox with
    | .offline :: rest =>
      let (s1, o) := newOneshot { s with inbox := rest }
      (match s1.cs with
       | none => [({ s1 with cs := some (.offline o), loop := .stopAwaitWill o }, [.polled .offline])]
       | some _ => [({ s1 with loop := .stopSendCs o }, [.polled .offline])])
    | e :: rest => [({ s with inbox := rest, loop := .stopCheck }, [.polled e.name])]
    | [] => []
  | .stopSendCs o =>
    match s.cs with
    | none => [({ s with cs := some (.offline o), loop := .stopAwaitWill o }, [])]
    | some _ => []
  | .stopAwaitWill o =>
    match reply? s o with
    | some (some bd) => [({ s with will := some bd, loop := .sendStopped }, [.will bd])]
    | some none => [({ s with loop := .sendStopped }, [])]
    | none => []
  | .forceSendCs o =>
    match s.cs with
    | none => [({ s with cs := some (.offline o), loop := .forceAwaitWill o }, [])]
    | some _ => []
  | .forceAwaitWill o =>
    match reply? s o with
    | some (some bd) => [({ s with will := some bd, loop := .sendStopped }, [.will bd])]
    | some none => [({ s with loop := .sendStopped }, [])]
    | none => []
  | .sendStopped =>
    match s.cs with
    | none => [({ s with cs := some .stopped, running := false, loop := .done }, [.runReturned])]
    | some _ => []
  | .done => []

/-- the 1 s timeout of the shutdown phase elapses: whatever `poll_until_offline` was doing is
dropped and `on_offline` is forced -/
def stepLoopTimeout (s : St) : List (St × List Obs) :=
  match s.stopDeadline with
  | some dl =>
    if dl ≤ s.wall then
      match s.loop with
      | .stopCheck | .stopPolling | .stopSendCs _ | .stopAwaitWill _ =>
        let (s1, o) := newOneshot { s with stopDeadline := none }
        (match s1.cs with
         | none => [({ s1 with cs := some (.offline o), loop := .forceAwaitWill o }, [])]
         | some _ => [({ s1 with loop := .forceSendCs o }, [])])
      | _ => []
    else []
  | none => []

/-! ### the node task -/

/-- `node_birth` up to and including the NBIRTH hand-over -/
def nodeBirthStart (s : St) (bt : BT) (fromCmd : Option Nat) (dec : Dec) : St × List Obs :=
  let s := { s with birthed := false, seq := 0, epoch := s.epoch + 1 }      -- `start_birth`
  let (s, id, o) := handOver s { kind := .nbirth, seq := some 0, bd := some s.bdseq } dec
  match callRes s id with
  | some ok => ({ s with node := .nbDone ok bt fromCmd }, [.bNode, o])
  | none => ({ s with node := .waitNb id bt fromCmd }, [.bNode, o])

def stepNode (s : St) (dec : Dec) : List (St × List Obs) :=
  match s.node with
  | .idle =>
    -- biased select: client_state, then rebirth requests, then NCMDs
    match s.cs with
    | some .online =>
      let s := { s with cs := none }
      if s.stopping then [(s, [])]                       -- cancelled: a queued Online starts nothing
      else if s.online then [({ s with online := true }, [])]
      else
        let s := { s with online := true }
        let (s, id, o) := handOver s { kind := .sub } dec
        (match callRes s id with
         | some ok => [({ s with node := .subDone ok }, [o])]
         | none => [({ s with node := .waitSub id }, [o])])
    | some (.offline o) =>
      let s := { s with cs := none }
      if !s.online then [({ s with oneshots := s.oneshots ++ [(o, none)] }, [])]
      else
        let bd := (s.bdseq + 1) % 256
        [({ s with online := false, birthed := false, bdseq := bd, devs := pushAll .death s.devs,
                   oneshots := s.oneshots ++ [(o, some bd)] }, [])]
    | some .stopped => [({ s with cs := none, node := .done }, [])]
    | none =>
      if s.rebirthQ then
        let s := { s with rebirthQ := false }
        if s.birthed then [({ s with node := .birthStart .rebirth none }, [])] else [(s, [])]
      else
        match s.msgQ with
        | (rb, ts) :: rest =>
          let s := { s with msgQ := rest }
          if !ts then [(s, [])]                        -- `MessageMetrics::try_from` fails
          else if s.nodeCbPark then [({ s with node := .inCb rb }, [.cbNcmd])]
          else [(({ s with node := .inCb rb }), [.cbNcmd])]
        | [] => []
  | .waitSub id =>
    match callRes s id with
    | some ok => [({ s with node := .subDone ok }, [])]
    | none => []
  | .subDone ok =>
    if ok then [({ s with node := .birthStart .birth none }, [])] else [({ s with node := .idle }, [])]
  | .birthStart bt fromCmd => [nodeBirthStart s bt fromCmd dec]
  | .waitNb id bt fromCmd =>
    match callRes s id with
    | some ok => [({ s with node := .nbDone ok bt fromCmd }, [])]
    | none => []
  | .nbDone ok bt fromCmd =>
    let s := if ok then { s with birthed := true, devs := pushAll (.birth bt s.epoch) s.devs } else s
    let s := match fromCmd with
      | some now => { s with lastRebirthReq := now }
      | none => s
    [({ s with node := .idle }, [])]
  | .inCb rb =>
    if s.nodeCbPark then []
    else if !rb then [({ s with node := .idle }, [])]
    else if s.wall - s.lastRebirthReq < s.cooldown then [({ s with node := .idle }, [])]
    else if s.birthed then [({ s with node := .birthStart .rebirth (some s.wall) }, [])]
    else [({ s with lastRebirthReq := s.wall, node := .idle }, [])]
  | .done => []

/-! ### a device task -/

/-- `Device::birth` up to and including the DBIRTH hand-over -/
def devBirth (s : St) (x : Dev) (bt : BT) (req : Option Nat) (dec : Dec) : St × List Obs :=
  if !x.enabled || !x.registered then (s, [])      -- disabled, or removed from the device map
  else if bt == .birth && x.flag then (s, [])
  else
    -- a birth requested by a node birth (`req = some epoch`) is only valid while that birth is current
    match nextSeqIn s req with
    | .error _ => (s, [])
    | .ok (s, n) =>
      let (s, id, o) := handOver s { kind := .dbirth, dev := some x.name, seq := some n, gFlag := x.flag } dec
      let x := { x with flag := false }
      match callRes s id with
      | some ok => ({ s with devs := setDev { x with pc := .birthDone ok s.epoch } s.devs }, [.bDev x.name, o])
      | none => ({ s with devs := setDev { x with pc := .waitBirth id s.epoch } s.devs }, [.bDev x.name, o])

/-- `Device::death(publish)`; `thenDone` = the device was removed -/
def devDeath (s : St) (x : Dev) (pub thenDone : Bool) (dec : Dec) : St × List Obs :=
  let fin : DevPc := if thenDone then .done else .idle
  if !x.flag then ({ s with devs := setDev { x with pc := fin } s.devs }, [])
  else
    let x := { x with flag := false }
    if !pub then ({ s with devs := setDev { x with pc := fin } s.devs }, [])
    else
      match nextSeqIn s (some x.epoch) with
      | .error _ => ({ s with devs := setDev { x with pc := fin } s.devs }, [])
      | .ok (s, n) =>
        let (s, id, o) := handOver s { kind := .ddeath, dev := some x.name, seq := some n, gFlag := true } dec
        match callRes s id with
        | some _ => ({ s with devs := setDev { x with pc := fin } s.devs }, [o])
        | none => ({ s with devs := setDev { x with pc := .waitDeath id thenDone } s.devs }, [o])

def stepDev (s : St) (u : Nat) (dec : Dec) : List (St × List Obs) :=
  match findUid u s.devs with
  | none => []
  | some x =>
    match x.pc with
    | .idle =>
      match x.nsq with
      | m :: rest =>
        let x := { x with nsq := rest }
        let s := { s with devs := setDev x s.devs }
        (match m with
         | .birth bt ep => [devBirth s x bt (some ep) dec]
         | .death => [devDeath s x false false dec]
         | .removed => [devDeath s x true true dec])
      | [] =>
        match x.hq with
        | r :: rest =>
          let x := { x with hq := rest }
          (match r with
           | .enable =>
             let x := { x with enabled := true }
             [devBirth { s with devs := setDev x s.devs } x .birth none dec]
           | .disable =>
             let x := { x with enabled := false }
             [devDeath { s with devs := setDev x s.devs } x true false dec]
           | .rebirth => [devBirth { s with devs := setDev x s.devs } x .rebirth none dec])
        | [] =>
          match x.mq with
          | ts :: rest =>
            let x := { x with mq := rest }
            if !ts then [({ s with devs := setDev x s.devs }, [])]
            else [({ s with devs := setDev { x with pc := .inCb } s.devs }, [.cbDcmd x.name])]
          | [] => []
    | .waitBirth id ep =>
      match callRes s id with
      | some ok => [({ s with devs := setDev { x with pc := .birthDone ok ep } s.devs }, [])]
      | none => []
    | .birthDone ok ep =>
      [({ s with devs := setDev (if ok then { x with flag := true, epoch := ep, pc := .idle } else { x with pc := .idle }) s.devs }, [])]
    | .waitDeath id thenDone =>
      match callRes s id with
      | some _ => [({ s with devs := setDev { x with pc := (if thenDone then .done else .idle) } s.devs }, [])]
      | none => []
    | .inCb => if s.devCbPark.contains x.name then [] else [({ s with devs := setDev { x with pc := .idle } s.devs }, [])]
    | .done => []

/-! ### user API calls (each runs as its own short task) -/

def setUCall (u : UCall) : List UCall → List UCall
  | [] => []
  | v :: t => if v.j == u.j then u :: t else v :: setUCall u t

def stepUser (s : St) (j : Nat) (dec : Dec) : List (St × List Obs) :=
  match s.ucalls.find? (·.j == j) with
  | none => []
  | some u =>
    let fin (s : St) (r : URes) (pre : List Obs) : St × List Obs :=
      ({ s with ucalls := setUCall { u with pc := .done } s.ucalls }, pre ++ [.ures j r])
    match u.kind, u.pc with
    | .pub t isTry n, .start =>
      if n = 0 then [fin s .noMetrics []]
      else
        let gate : Except URes (St × Nat × Bool) :=
          match t with
          | .node => (nextSeq s).map fun (s, k) => (s, k, false)
          | .dev d =>
            match findDev d s.devs with
            | some x => if !x.flag then .error .unbirthed else (nextSeqIn s (some x.epoch)).map fun (s, k) => (s, k, true)
            | none => .error .unbirthed
        (match gate with
         | .error e => [fin s e []]
         | .ok (s, k, fl) =>
           let c : Call := match t with
             | .node => { kind := .ndata, seq := some k, isTry := isTry }
             | .dev d => { kind := .ddata, dev := some d, seq := some k, isTry := isTry, gFlag := fl }
           let (s, id, o) := handOver s c dec
           (match callRes s id with
            | some true => [fin s .ok [o]]
            | some false => [fin s .offline [o]]
            | none => [({ s with ucalls := setUCall { u with pc := .wait id } s.ucalls }, [o])]))
    | .pub _ _ _, .wait id =>
      (match callRes s id with
       | some true => [fin s .ok []]
       | some false => [fin s .offline []]
       | none => [])
    | .cancel, .start =>
      if !s.running then [fin s .cancelled []]
      else
        let s := { s with stopping := true }
        let (s, _, o) := handOver s { kind := .ndeath, bd := some s.bdseq, isTry := true } dec
        [({ s with ucalls := setUCall { u with pc := .cancelStop } s.ucalls }, [o])]
    | .cancel, .cancelStop =>
      -- `stop_tx.send`: waits while the slot is taken; fails (and is ignored) once `run` has returned
      if s.loop == .done then [({ s with ucalls := setUCall { u with pc := .cancelDisc } s.ucalls }, [])]
      else if s.stop then []
      else [({ s with stop := true, ucalls := setUCall { u with pc := .cancelDisc } s.ucalls }, [])]
    | .cancel, .cancelDisc =>
      let (s, _, o) := handOver s { kind := .disconnect, isTry := true } dec
      [fin s .cancelled [o]]
    | _, _ => []

/-! ### stimuli: what the environment does to the node between steps -/

inductive Stim where
  | ev (e : Ev)                                   -- the MQTT event loop has an event ready
  | reg (d : Nat) | unreg (d : Nat)
  | enable (d : Nat) | disable (d : Nat) | drebirth (d : Nat)
  | nrebirth
  | pub (j : Nat) (t : PubTarget) (isTry : Bool) (n : Nat)
  | cancel (j : Nat)
  | resolve (id : Nat) (ok : Bool)
  | advance (ms : Nat)
  | cbPark (t : PubTarget) (on : Bool)
  deriving DecidableEq, Repr, Hashable

def applyStim (s : St) : Stim → St × List Obs
  | .ev e => ({ s with inbox := s.inbox ++ [e] }, [])
  | .reg d =>
    match s.devs.find? (fun x => x.name == d && x.registered && x.pc != .done) with
    | some _ => (s, [])                                    -- Duplicate (reported by the harness itself)
    | none => ({ s with devs := s.devs ++ [{ uid := s.devs.length, name := d }] }, [])
  | .unreg d =>
    match s.devs.find? (fun x => x.name == d && x.registered && x.pc != .done) with
    | some x => ({ s with devs := setDev { x with registered := false, nsq := x.nsq ++ [.removed] } s.devs }, [])
    | none => (s, [])
  | .enable d =>
    match findDev d s.devs with
    | some x => ({ s with devs := setDev { x with hq := x.hq ++ [.enable] } s.devs }, [])
    | none => (s, [])
  | .disable d =>
    match findDev d s.devs with
    | some x => ({ s with devs := setDev { x with hq := x.hq ++ [.disable] } s.devs }, [])
    | none => (s, [])
  | .drebirth d =>
    match findDev d s.devs with
    | some x => ({ s with devs := setDev { x with hq := x.hq ++ [.rebirth] } s.devs }, [])
    | none => (s, [])
  | .nrebirth => ({ s with rebirthQ := true }, [])         -- try_send on a capacity-1 channel
  | .pub j t isTry n => ({ s with ucalls := s.ucalls ++ [{ j := j, kind := .pub t isTry n }] }, [])
  | .cancel j => ({ s with ucalls := s.ucalls ++ [{ j := j, kind := .cancel }] }, [])
  | .resolve id ok =>
    match s.calls[id]? with
    | some c =>
      if c.res.isNone then ({ s with calls := s.calls.set id { c with res := some ok } }, [.resolved id ok]) else (s, [])
    | none => (s, [])
  | .advance ms => ({ s with wall := s.wall + ms }, [])
  | .cbPark t on =>
    match t with
    | .node => ({ s with nodeCbPark := on }, [])
    | .dev d =>
      if on then ({ s with devCbPark := if s.devCbPark.contains d then s.devCbPark else d :: s.devCbPark }, [])
      else ({ s with devCbPark := s.devCbPark.filter (· != d) }, [])

/-! ### tasks and the global step relation -/

inductive Task where
  | loop | loopTimeout | node | dev (d : Nat) | user (j : Nat)
  deriving DecidableEq, Repr, Hashable

def step (s : St) (t : Task) (dec : Dec) : List (St × List Obs) :=
  match t with
  | .loop => stepLoop s
  | .loopTimeout => stepLoopTimeout s
  | .node => stepNode s dec
  | .dev d => stepDev s d dec
  | .user j => stepUser s j dec

/-- all tasks that exist in a state -/
def tasks (s : St) : List Task :=
  [.loop, .loopTimeout, .node] ++ (s.devs.filter (·.pc != .done)).map (fun d => Task.dev d.uid) ++
    (s.ucalls.filter (·.pc != .done)).map (fun u => Task.user u.j)

end Srad.Eon
