/-
M15 ∘ M13 — the concrete protobuf codec for the command payloads of `Model/HostCmd.lean`.

`HostCmd.WirePayload` / `WireMetric` are `payload::Payload` / `payload::Metric` seen from the
command path: the fields the node reads (`Cmd.Metric`: name, alias, timestamp, is_null, value as a
`Codec.PV`) plus datatype, the two flags, and only the PRESENCE of metadata and properties. They
are mapped to the full payload records of `Model/Metric.lean` (`toMP`), for which
`Model/MetricWire.lean` has the wire codec `encW` / `decW` against the M13 schema `sparkplug`, and
back (`ofMP`, which forgets what the command path does not read):

  encWC p       = encW (toMP p)                      -- `Payload::encode_to_vec`
  decWC valid b = (decW valid b).map ofMP            -- `Payload::decode`, then the command path's view

What `WirePayload` does not carry is filled with fixed stand-ins — the ones the harness
(`c10.rs::build_metric`) uses, so that `encWC` can be compared with the real prost bytes:
* `PV.dataset` (content not modelled)  ↦ `DataSet { num_of_columns: Some(0), .. }`, bytes `08 00`;
* `PV.template isDef hasRef` (two markers) ↦ `Template { is_definition: isDef, template_ref:
  Some("ref") iff hasRef, .. }`;
* `hasMetadata = true` ↦ `Some(MetaData::default())`; `hasProps = true` ↦ `Some(PropertySet::default())`.
`ofMP` reads back the markers only (any data set is `PV.dataset`, any template its two markers,
any metadata / property set its presence), so `decWC` is the command path's reading of ANY payload
bytes, not only of those `encWC` writes.
`PV.pset` / `PV.psets` are property values: no `metric::Value` has them (`inRangeC` excludes them).

Imports only other model files (linked into `srad_model`).
-/
import SradModel.Model.HostCmd
import SradModel.Model.MetricWire

namespace Srad.HostCmd
open Srad.Codec Srad.Cmd
open Srad.Wire (Val sparkplug encodeMsg)
open Srad.Metric (PMetric PMeta MVal optRec getOpt subTree encW decW u32 u64)

/-- prost bytes of `DataSet { num_of_columns: Some(0), columns: [], types: [], rows: [] }` -/
def dsStandIn : Bytes := [8, 0]

/-- "ref" -/
def refStandIn : Bytes := [114, 101, 102]

/-- prost bytes of `Template { template_ref: Some("ref") iff hasRef, is_definition: isDef, .. }` -/
def templateBytes (isDef : Option Bool) (hasRef : Bool) : Bytes :=
  encodeMsg sparkplug "Template"
    (.msg (optRec 4 (if hasRef then some (Val.bytes refStandIn) else none) ++
      optRec 5 (isDef.map Val.bool)))

/-- a `metric::Value` of the command model as a metric value of the metric model -/
def pvToMVal : PV → MVal
  | .int n => .int n | .long n => .long n | .float b => .float b | .double b => .double b
  | .bool b => .bool b | .str s => .str s | .bytes b => .bytes b
  | .dataset => .dataset dsStandIn
  | .template isDef hasRef => .template (templateBytes isDef hasRef)
  | .ext => .ext
  | .pset => .ext | .psets => .ext      -- not metric values; out of range

/-- … and back: of a data set only that it is one, of a template its two markers -/
def mvalToPV : MVal → PV
  | .int n => .int n | .long n => .long n | .float b => .float b | .double b => .double b
  | .bool b => .bool b | .str s => .str s | .bytes b => .bytes b
  | .dataset _ => .dataset
  | .template enc =>
    match subTree "Template" enc with
    | .msg rs =>
      .template (match getOpt rs 5 with | some (.bool b) => some b | _ => none) (getOpt rs 4).isSome
    | _ => .template none false
  | .ext => .ext

def toPMetric (m : WireMetric) : PMetric :=
  { name := m.core.name, alias := m.core.alias, timestamp := m.core.ts, datatype := m.datatype,
    isHistorical := m.historical, isTransient := m.transient, isNull := m.core.isNull,
    metadata := if m.hasMetadata then some {} else none,
    properties := if m.hasProps then some ([], []) else none,
    value := m.core.value.map pvToMVal }

def ofPMetric (q : PMetric) : WireMetric :=
  { core := { name := q.name, alias := q.alias, ts := q.timestamp, isNull := q.isNull,
              value := q.value.map mvalToPV },
    datatype := q.datatype, historical := q.isHistorical, transient := q.isTransient,
    hasMetadata := q.metadata.isSome, hasProps := q.properties.isSome }

/-- the full payload record of a command payload (stand-ins for what it does not carry) -/
def toMP (p : WirePayload) : Srad.Metric.Payload :=
  { timestamp := p.ts, metrics := p.metrics.map toPMetric, seq := p.seq, uuid := p.uuid,
    body := p.body }

/-- the command path's view of a full payload record -/
def ofMP (q : Srad.Metric.Payload) : WirePayload :=
  { ts := q.timestamp, metrics := q.metrics.map ofPMetric, seq := q.seq, uuid := q.uuid,
    body := q.body }

/-- `Payload::encode_to_vec` on the host -/
def encWC (p : WirePayload) : Bytes := encW (toMP p)

/-- `Payload::decode` in the node's client, seen from the command path;
`valid` is `String::from_utf8(..).is_ok()` -/
def decWC (valid : Bytes → Bool) (b : Bytes) : Option WirePayload := (decW valid b).map ofMP

/-! ### what the Rust types guarantee -/

/-- a `metric::Value`: `u32` / `u64` bit patterns, a valid `String`, and not a property-only
variant; for a template with a reference the stand-in reference must be a valid string -/
def pvOKC (valid : Bytes → Bool) : PV → Bool
  | .int n => u32 n | .long n => u64 n | .float b => u32 b | .double b => u64 b
  | .bool _ => true | .str s => valid s | .bytes _ => true | .dataset => true
  | .template _ hasRef => !hasRef || valid refStandIn
  | .ext => true
  | .pset => false | .psets => false

def wireMetricOK (valid : Bytes → Bool) (m : WireMetric) : Bool :=
  m.core.name.all valid && m.core.alias.all u64 && m.core.ts.all u64 && m.datatype.all u32 &&
  m.core.value.all (pvOKC valid)

/-- the command payload is a value of `payload::Payload`: `u64` timestamps / seq / aliases, `u32`
datatype, values in range, every `String` valid UTF-8, fewer than 2^64 encoded bytes -/
def inRangeC (valid : Bytes → Bool) (p : WirePayload) : Bool :=
  p.ts.all u64 && p.metrics.all (wireMetricOK valid) && p.seq.all u64 && p.uuid.all valid &&
  decide ((encWC p).length < 18446744073709551616)

/-- a host `PublishMetric` as the Rust types have it: name a `String` / alias a `u64`, timestamp
a `u64`, the value a `metric::Value` -/
def pubOK (valid : Bytes → Bool) (pm : PublishMetric) : Bool :=
  (match pm.id with | .name n => valid n | .alias a => u64 a) && pm.ts.all u64 && pvOKC valid pm.value

def InRangeC (valid : Bytes → Bool) (p : WirePayload) : Prop := inRangeC valid p = true

instance (valid : Bytes → Bool) (p : WirePayload) : Decidable (InRangeC valid p) := by
  unfold InRangeC; exact inferInstance

def PublishMetric.InRange (valid : Bytes → Bool) (pm : PublishMetric) : Prop := pubOK valid pm = true

instance (valid : Bytes → Bool) (pm : PublishMetric) : Decidable (pm.InRange valid) := by
  unfold PublishMetric.InRange; exact inferInstance

/-- the encoded payload fits a `Vec<u8>` -/
def EncFitsC (p : WirePayload) : Prop := (encWC p).length < 18446744073709551616

instance (p : WirePayload) : Decidable (EncFitsC p) :=
  decidable_of_iff (decide ((encWC p).length < 18446744073709551616) = true)
    (by unfold EncFitsC; exact decide_eq_true_iff)

end Srad.HostCmd
