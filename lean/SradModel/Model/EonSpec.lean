/-
Vocabulary for stating C01–C04 and C20 about the edge-node LTS `Model/Eon`: executions (any
interleaving of environment stimuli and task steps, with any client decisions), the observation
trace of an execution, and the property predicates as scanners over traces. Definitions only.
-/
import SradModel.Model.Eon

namespace Srad.Eon

/-- one action of an execution: the environment does something, or task `t` takes a step; `dec`
is the client's decision should the step hand a call over, `k` selects among the alternatives
the step offers (unbiased `select!`) -/
inductive Act where
  | stim (x : Stim)
  | task (t : Task) (dec : Dec) (k : Nat)
  deriving Repr

def runAct (s : St) : Act → Option (St × List Obs)
  | .stim x => some (applyStim s x)
  | .task t dec k => (step s t dec)[k]?

/-- run a list of actions; `none` if some action is not enabled -/
def runActs (s : St) : List Act → Option (St × List Obs)
  | [] => some (s, [])
  | a :: as =>
    match runAct s a with
    | none => none
    | some (s1, o1) =>
      match runActs s1 as with
      | none => none
      | some (s2, o2) => some (s2, o1 ++ o2)

/-- `s` is reachable with observation trace `tr` (cooldown `cd` is the only configuration) -/
def Reaches (cd : Nat) (s : St) (tr : List Obs) : Prop :=
  ∃ acts, runActs (init cd) acts = some (s, tr)

def CK.bearsSeq : CK → Bool
  | .ndata | .dbirth | .ddata | .ddeath => true
  | _ => false

/-! ### C02 — sequence numbers -/

/-- scan a trace: `exp` is the sequence number the next seq-bearing hand-over must carry
(`none` before the first NBIRTH) -/
def seqOk : Option Nat → List Obs → Bool
  | _, [] => true
  | exp, .call _ k _ sq _ _ _ :: t =>
    if k == .nbirth then sq == some 0 && seqOk (some 1) t
    else if k.bearsSeq then
      match exp with
      | some e => sq == some e && seqOk (some ((e + 1) % 256)) t
      | none => false
    else sq == none && seqOk exp t            -- SUB, NDEATH, DISCONNECT carry no sequence number
  | exp, _ :: t => seqOk exp t

/-! ### C03 — bdSeq and the will -/

/-- every NBIRTH carries the bdSeq of the will registered most recently before it -/
def nbirthBdOk : Option Nat → List Obs → Bool
  | _, [] => true
  | _, .will bd :: t => nbirthBdOk (some bd) t
  | w, .call _ .nbirth _ _ bd _ _ :: t => bd == w && w.isSome && nbirthBdOk w t
  | w, _ :: t => nbirthBdOk w t

/-- the wills registered one after the other carry consecutive bdSeq values (mod 256), each new
one after a connection loss reported by `poll` (`polled offline`) and before `poll` is called
again — or after a cancel (the shutdown forces the node offline, which also counts as a loss);
`so` = an Offline was returned by `poll` and `poll` has not been called since; `cancelled` = an
explicit NDEATH has been handed over -/
def willChainOk : Option Nat → Bool → Bool → List Obs → Bool
  | _, _, _, [] => true
  | none, _, c, .will bd :: t => bd == 0 && willChainOk (some bd) false c t          -- the initial will
  | some w, so, c, .will bd :: t => (so || c) && bd == (w + 1) % 256 && willChainOk (some bd) false c t
  | w, _, c, .polled .offline :: t => willChainOk w true c t
  | w, _, c, .poll :: t => willChainOk w false c t
  | w, so, _, .call _ .ndeath _ _ _ _ _ :: t => willChainOk w so true t
  | w, so, c, _ :: t => willChainOk w so c t

/-- the explicit NDEATH of a graceful cancel carries the bdSeq of the registered will — or, if a
connection loss is being processed at that very moment (Offline returned by `poll`, or forced by
an earlier cancel's shutdown; new will not yet registered; the node is offline then), the bdSeq
the new will is about to carry. `so` = Offline returned by `poll` since the last will,
`c` = an explicit NDEATH was handed over before. -/
def ndeathBdOk : Option Nat → Bool → Bool → List Obs → Bool
  | _, _, _, [] => true
  | _, _, c, .will bd :: t => ndeathBdOk (some bd) false c t
  | w, _, c, .polled .offline :: t => ndeathBdOk w true c t
  | some w, so, c, .call _ .ndeath _ _ bd _ _ :: t =>
    (bd == some w || ((so || c) && bd == some ((w + 1) % 256))) && ndeathBdOk (some w) so true t
  | none, _, _, .call _ .ndeath _ _ _ _ _ :: _ => false
  | w, so, c, _ :: t => ndeathBdOk w so c t

/-! ### C01 — no data outside a birthed session -/

/-- scanner state: `live` = an NBIRTH of the current connection has been accepted, no node
(re)birth is in flight and no connection loss has been processed since; `pend` = id of an NBIRTH
handed over and not yet resolved -/
def gateOk : Bool → Option Nat → List Obs → Bool
  | _, _, [] => true
  | _, _, .call _ .sub _ _ _ _ _ :: t => gateOk false none t             -- a new connection
  | _, _, .bNode :: t => gateOk false none t                             -- a node (re)birth starts
  | _, _, .call id .nbirth _ _ _ _ dec :: t =>
    (match dec with
     | .acc => gateOk true none t
     | .rej => gateOk false none t
     | .park => gateOk false (some id) t)
  | live, pend, .resolved id ok :: t =>
    if pend == some id then gateOk ok none t else gateOk live pend t
  | _, _, .will _ :: t => gateOk false none t                            -- a connection loss was processed
  | live, pend, .call _ k _ _ _ _ _ :: t =>
    if k.bearsSeq then live && gateOk live pend t else gateOk live pend t
  | live, pend, _ :: t => gateOk live pend t

/-- the first hand-over after the subscriptions is the NBIRTH (the NDEATH / disconnect of a
cancel excepted) -/
def firstAfterSubOk : Bool → List Obs → Bool
  | _, [] => true
  | _, .call _ .sub _ _ _ _ _ :: t => firstAfterSubOk true t
  | true, .call _ k _ _ _ _ _ :: t =>
    if k == .nbirth then firstAfterSubOk false t
    else if k == .ndeath || k == .disconnect then firstAfterSubOk true t
    else false
  | w, _ :: t => firstAfterSubOk w t

/-! ### C04 — device births, data and deaths -/

/-- per-device scanner state -/
inductive DLife where
  | none            -- no DBIRTH of this device in this node birth / on this connection yet
  | pending (id : Nat)
  | birthed
  | dead
  deriving DecidableEq, Repr

/-- DDATA of device `d` only between an accepted DBIRTH of the current node birth and the next
DDEATH; `st` is reset when a node birth starts -/
def ddataOk (d : Nat) : DLife → List Obs → Bool
  | _, [] => true
  | _, .bNode :: t => ddataOk d .none t
  | st, .call id .dbirth (some d') _ _ _ dec :: t =>
    if d' == d then
      (match dec with
       | .acc => ddataOk d .birthed t
       | .rej => ddataOk d .none t
       | .park => ddataOk d (.pending id) t)
    else ddataOk d st t
  | st, .resolved id ok :: t =>
    if st == .pending id then ddataOk d (if ok then .birthed else .none) t else ddataOk d st t
  | st, .call _ .ddeath (some d') _ _ _ _ :: t =>
    if d' == d then ddataOk d .dead t else ddataOk d st t
  | st, .call _ .ddata (some d') _ _ _ _ :: t =>
    if d' == d then st == .birthed && ddataOk d st t else ddataOk d st t
  | st, _ :: t => ddataOk d st t

/-- a DDEATH of device `d` only if its latest lifecycle hand-over on this connection was a
DBIRTH; `last` is reset when a new connection starts (SUB) -/
def ddeathOk (d : Nat) : Bool → List Obs → Bool
  | _, [] => true
  | _, .call _ .sub _ _ _ _ _ :: t => ddeathOk d false t
  | last, .call _ .dbirth (some d') _ _ _ _ :: t => if d' == d then ddeathOk d true t else ddeathOk d last t
  | last, .call _ .ddeath (some d') _ _ _ _ :: t =>
    if d' == d then last && ddeathOk d false t else ddeathOk d last t
  | last, _ :: t => ddeathOk d last t

/-! ### C20 — shutdown -/

/-- every NDEATH and every DISCONNECT goes through a non-blocking client call, every hand-over
of a `try_` publish too (the trace records `isTry` per call; user publishes are tagged by the
stimulus), and nothing is handed over by a `try` call that then parks -/
def tryOk : List Obs → Bool
  | [] => true
  | .call _ k _ _ _ isTry dec :: t =>
    (if k == .ndeath || k == .disconnect then isTry else true) && (if isTry then dec != .park else true) && tryOk t
  | _ :: t => tryOk t

/-- no client call at all -/
def noCalls : List Obs → Bool
  | [] => true
  | .call _ _ _ _ _ _ _ :: _ => false
  | _ :: t => noCalls t

end Srad.Eon
