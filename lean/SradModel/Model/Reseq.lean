/-
M1 — model of `srad_app::resequencer::Resequencer<T>` (srad-app/src/resequencer.rs).

Reading of the Rust:
* `buffer : BTreeMap<u8, T>`  ↦ association list kept sorted by key (`insertSorted`), so
  `first_key_value` / `pop_first` are the head of the list;
* `next_seq : u8`             ↦ `Nat` with explicit `% 256` where the Rust has `wrapping_add`;
* `state : Good | ReSequencing(u8)` ↦ `Mode`;
* `assert!(self.buffer.is_empty())` in `drain` ↦ the explicit outcome `DrainRes.panic`.
No imports: this file is linked into the `srad_model` executable.
-/
namespace Srad.Reseq

inductive Mode where
  | good
  | reseq (off : Nat)
  deriving Repr, DecidableEq

structure St (α : Type) where
  buf  : List (Nat × α)
  next : Nat
  mode : Mode
  deriving Repr, DecidableEq

/-- `u8::wrapping_sub` -/
def wsub (a b : Nat) : Nat := (a + 256 - b % 256) % 256
/-- `u8::wrapping_add` -/
def wadd (a b : Nat) : Nat := (a + b) % 256

def init {α} : St α := { buf := [], next := 0, mode := .good }

/-- `BTreeMap::contains_key` -/
def hasKey {α} (k : Nat) : List (Nat × α) → Bool
  | [] => false
  | (k', _) :: t => k' == k || hasKey k t

/-- `BTreeMap::entry(k)` on a vacant entry followed by `insert` : ordered insertion. -/
def insertSorted {α} (k : Nat) (v : α) : List (Nat × α) → List (Nat × α)
  | [] => [(k, v)]
  | (k', v') :: t => if k < k' then (k, v) :: (k', v') :: t else (k', v') :: insertSorted k v t

inductive ProcRes (α : Type) where
  | next (m : α)        -- MessageNextInSequence
  | inserted            -- OutOfSequenceMessageInserted
  | dup                 -- DuplicateMessageSequence
  deriving Repr

inductive DrainRes (α : Type) where
  | msg (m : α)         -- Message
  | empty               -- Empty
  | missing             -- SequenceMissing
  | panic               -- the assert! in `drain` fired
  deriving Repr

def setNext {α} (s : St α) (n : Nat) : St α := { s with next := n }

def reset {α} (_s : St α) : St α := init

/-- `Resequencer::process` -/
def process {α} (s : St α) (seq : Nat) (m : α) : St α × ProcRes α :=
  if s.next = seq then
    match s.mode with
    | .reseq off =>
      if hasKey (wsub seq off) s.buf then (s, .dup)
      else ({ s with next := wadd s.next 1 }, .next m)
    | .good => ({ s with next := wadd s.next 1 }, .next m)
  else
    let (off, s1) : Nat × St α := match s.mode with
      | .reseq off => (off, s)
      | .good => (s.next, { s with mode := .reseq s.next })
    if hasKey (wsub seq off) s1.buf then (s1, .dup)
    else ({ s1 with buf := insertSorted (wsub seq off) m s1.buf }, .inserted)

/-- `BTreeMap::remove(&k)` -/
def removeKey {α} (k : Nat) : List (Nat × α) → Option (α × List (Nat × α))
  | [] => none
  | (k', v) :: t =>
    if k' = k then some (v, t)
    else match removeKey k t with
      | some (m, t') => some (m, (k', v) :: t')
      | none => none

/-- `Resequencer::drain`: the entry for the expected sequence value is looked up by its key
(`next_seq.wrapping_sub(offset)`), not taken from the front of the map. -/
def drain {α} (s : St α) : St α × DrainRes α :=
  match s.mode with
  | .good => if s.buf.isEmpty then (s, .empty) else (s, .panic)
  | .reseq off =>
    if s.buf.isEmpty then (s, .empty)
    else
      match removeKey (wsub s.next off) s.buf with
      | none => (s, .missing)
      | some (m, t) =>
        let s' : St α := { s with buf := t, next := wadd s.next 1 }
        (if t.isEmpty then { s' with mode := .good } else s', .msg m)

/-- How the host uses it (and how C09 phrases it): after an arrival, call `drain` until it
    returns something other than `Message`. `fuel` bounds the loop for Lean; `drainAll` starts it
    with `buf.length + 1`, which `Proofs/Reseq` shows is never exhausted (`ranOut = false`). -/
def drainLoop {α} : Nat → St α → List α → St α × List α × DrainRes α × Bool
  | 0, s, acc => (s, acc.reverse, .empty, true)
  | fuel + 1, s, acc =>
    match drain s with
    | (s', .msg m) => drainLoop fuel s' (m :: acc)
    | (s', r) => (s', acc.reverse, r, false)

def drainAll {α} (s : St α) : St α × List α × DrainRes α × Bool :=
  drainLoop (s.buf.length + 1) s []

end Srad.Reseq
