/-
M12 — the closed loop: one srad edge node, a broker, and the host application's per-node actor.

(a) `Node`: an abstract, SEQUENTIAL model of the edge node as the host sees it, under two
    assumptions that the LTS `Model/Eon` does not make: the client accepts every call, and every
    action (an event from the event loop, a handle request, a user publish) runs to quiescence
    before the next one starts. Each operation returns the wire messages it hands over.
    Reading of the Rust (srad-eon/src/node.rs, device.rs; same rules as `Model/Eon`):
    * `EoNState::get_next_seq_and_epoch`  ↦ `Node.nextSeq` (gate online ∧ birthed, `wrapping_add`);
      the epoch check is dropped: at quiescence a device's flag is only set if it was birthed in
      the current node birth (a Rebirth births every enabled device again, an Offline clears every
      flag), so `required_epoch = Some(birth_epoch)` never fails for a flagged device;
    * `Node::node_birth` + `DeviceMap::birth_devices` + `Device::birth` ↦ `Node.nodeBirth`
      (`start_birth`: birthed := false, seq := 0; NBIRTH seq 0 with the current bdSeq;
      `birth_completed`; then one `NodeStateMessage::Birth` per device in the iteration order of
      the device `HashMap` = the order of `devs`, an arbitrary permutation parameter);
    * `Node::on_online` ↦ `Node.goOnline` (BirthType::Birth: only devices whose flag is false),
      `Node::on_offline` + `Node::death` + `Device::death(false)` ↦ `Node.goOffline`
      (bdseq := bdseq+1 as `u8`, every flag cleared; the NEW will carries the new bdSeq);
    * `NodeHandle::rebirth` / NCMD `Node Control/Rebirth = true` with cooldown 0 ↦ `Node.rebirth`
      (`Node::rebirth`: nothing unless birthed; BirthType::Rebirth: every enabled device);
    * `Device::enable` / `disable` ↦ `Node.enable` / `Node.disable`,
      `NodeHandle::publish…` / `DeviceHandle::publish…` ↦ `Node.pubNode` / `Node.pubDev`.
    Every message carries a unique id (`nextId`), standing for the values published, and the
    clock reading at hand-over.
(b) `Sys`: broker + composition with `Host.step` (a black box here). `Sys.step` is the
    nondeterministic step relation, one `Action` at a time.
(c) `settle`: the deterministic fault-free continuation, built only from `Sys.step`; `InSync`.

Imports only other models (linked into `srad_model`).
-/
import SradModel.Model.Host

namespace Srad.Loop
open Srad Srad.Host

/-- what travels from the node to the host. `id` = unique message id (the value published),
`ts` = clock reading at hand-over -/
inductive Msg where
  | nbirth (ts bd id : Nat)
  | ndeath (bd : Nat)
  | ndata (seq ts id : Nat)
  | dbirth (d seq ts id : Nat)
  | ddeath (d seq ts id : Nat)
  | ddata (d seq ts id : Nat)
  deriving DecidableEq, Repr

/-- a registered device: name, `Device::enabled`, `DeviceState::birthed` -/
structure Dev where
  name : Nat
  enabled : Bool := false
  flag : Bool := false
  deriving DecidableEq, Repr

structure Node where
  online : Bool := false
  birthed : Bool := false
  seq : Nat := 0
  bdseq : Nat := 0
  devs : List Dev := []      -- the device map, in its iteration order
  nextId : Nat := 0          -- ids handed out so far
  deriving DecidableEq, Repr

namespace Node

/-- `EoNState::get_next_seq` -/
def nextSeq (n : Node) : Option (Node × Nat) :=
  if n.online && n.birthed then some ({ n with seq := (n.seq + 1) % 256 }, (n.seq + 1) % 256)
  else none

/-- `Device::birth(birth_type, _)` for device `x` (the caller stores the returned device) -/
def devBirth (rebirth : Bool) (ts : Nat) (n : Node) (x : Dev) : Node × Dev × List Msg :=
  if !x.enabled then (n, x, [])
  else if !rebirth && x.flag then (n, x, [])
  else
    match n.nextSeq with
    | none => (n, x, [])
    | some (n1, k) =>
      ({ n1 with nextId := n1.nextId + 1 }, { x with flag := true }, [.dbirth x.name k ts n1.nextId])

/-- `DeviceMap::birth_devices`: every device task handles its `Birth` message, in map order.
The `devs` field of the node is not consulted here; the caller stores the returned list. -/
def birthDevs (rebirth : Bool) (ts : Nat) : Node → List Dev → Node × List Dev × List Msg
  | n, [] => (n, [], [])
  | n, x :: t =>
    let (n1, x1, m1) := devBirth rebirth ts n x
    let (n2, t2, m2) := birthDevs rebirth ts n1 t
    (n2, x1 :: t2, m1 ++ m2)

/-- `Node::birth(birth_type)` -/
def nodeBirth (rebirth : Bool) (ts : Nat) (n : Node) : Node × List Msg :=
  -- start_birth; NBIRTH (seq 0, current bdSeq) accepted; birth_completed
  let n1 : Node := { n with birthed := true, seq := 0, nextId := n.nextId + 1 }
  let (n2, ds, ms) := birthDevs rebirth ts n1 n1.devs
  ({ n2 with devs := ds }, .nbirth ts n.bdseq n.nextId :: ms)

/-- `Node::on_online` (subscribe accepted) -/
def goOnline (ts : Nat) (n : Node) : Node × List Msg :=
  if n.online then (n, []) else nodeBirth false ts { n with online := true }

/-- `Node::on_offline`: returns the bdSeq of the new will, if the node was online -/
def goOffline (n : Node) : Node × Option Nat :=
  if !n.online then (n, none)
  else
    let bd := (n.bdseq + 1) % 256
    ({ n with online := false, birthed := false, bdseq := bd,
              devs := n.devs.map fun x => { x with flag := false } }, some bd)

/-- `Node::rebirth` (manual, or NCMD Rebirth with cooldown 0) -/
def rebirth (ts : Nat) (n : Node) : Node × List Msg :=
  if !n.birthed then (n, []) else nodeBirth true ts n

/-- `NodeHandle::publish_metrics` -/
def pubNode (ts : Nat) (n : Node) : Node × List Msg :=
  match n.nextSeq with
  | none => (n, [])
  | some (n1, k) => ({ n1 with nextId := n1.nextId + 1 }, [.ndata k ts n1.nextId])

def findDev (d : Nat) (n : Node) : Option Dev := n.devs.find? (fun x => x.name == d)

def setDev (x : Dev) : List Dev → List Dev
  | [] => []
  | y :: t => if y.name == x.name then x :: t else y :: setDev x t

/-- `DeviceHandle::publish_metrics` -/
def pubDev (d ts : Nat) (n : Node) : Node × List Msg :=
  match n.findDev d with
  | none => (n, [])
  | some x =>
    if !x.flag then (n, [])
    else
      match n.nextSeq with
      | none => (n, [])
      | some (n1, k) => ({ n1 with nextId := n1.nextId + 1 }, [.ddata d k ts n1.nextId])

/-- `Device::enable` -/
def enable (d ts : Nat) (n : Node) : Node × List Msg :=
  match n.findDev d with
  | none => (n, [])
  | some x =>
    let (n1, x1, ms) := devBirth false ts n { x with enabled := true }
    ({ n1 with devs := setDev x1 n1.devs }, ms)

/-- `Device::disable` = `death(true)` -/
def disable (d ts : Nat) (n : Node) : Node × List Msg :=
  match n.findDev d with
  | none => (n, [])
  | some x =>
    let x0 : Dev := { x with enabled := false }
    if !x.flag then ({ n with devs := setDev x0 n.devs }, [])
    else
      let x1 : Dev := { x0 with flag := false }
      match n.nextSeq with
      | none => ({ n with devs := setDev x1 n.devs }, [])
      | some (n1, k) =>
        ({ n1 with devs := setDev x1 n1.devs, nextId := n1.nextId + 1 }, [.ddeath d k ts n1.nextId])

def enabledNames (n : Node) : List Nat := (n.devs.filter (·.enabled)).map (·.name)

end Node

/-! ### broker and composition -/

structure Sys where
  node : Node
  host : Host.St := Host.init
  cfg : Host.Cfg
  toHost : List Msg := []       -- in flight towards the host
  toNode : Nat := 0             -- rebirth NCMDs in flight towards the node
  nodeConn : Bool := false
  hostConn : Bool := false
  will : Nat := 0               -- bdSeq of the will registered at the broker
  clock : Nat := 1
  -- ghost history (not consulted by `step`)
  sent : List Msg := []         -- everything the node handed over (and wills the broker published)
  effs : List Host.Eff := []    -- everything the host actor did
  deriving Repr

inductive Action where
  | publishNode | publishDev (d : Nat) | enable (d : Nat) | disable (d : Nat) | manualRebirth
  | deliver (k : Nat) | duplicate (k : Nat) | drop (k : Nat)
  | deliverNcmd | dropNcmd
  | nodeDisconnect | nodeConnect | hostDisconnect | hostConnect
  | advance (ms : Nat)          -- the clock advances; a due reorder timer fires
  deriving DecidableEq, Repr

abbrev Action.tick : Action := .advance 1

/-- a node-to-host message as the host actor's input (every store accepts: `Ans.ok`) -/
def Msg.toIn : Msg → Host.In
  | .nbirth ts bd id => .nbirth ts bd id .ok
  | .ndeath bd => .ndeath bd
  | .ndata seq ts id => .rmsg seq ts (.ndata id .ok)
  | .dbirth d seq ts id => .rmsg seq ts (.dbirth d id .ok)
  | .ddeath d seq ts id => .rmsg seq ts (.ddeath d id)
  | .ddata d seq ts id => .rmsg seq ts (.ddata d id .ok)

/-- published with QoS 0 (may be lost by the broker); deaths and DBIRTH are not -/
def Msg.qos0 : Msg → Bool
  | .nbirth _ _ _ | .ndata _ _ _ | .ddata _ _ _ _ => true
  | _ => false

/-- the store effect of applying a data message -/
def Msg.dataEff : Msg → Option Host.Eff
  | .ndata _ _ id => some (.nodeData id)
  | .ddata d _ _ id => some (.devData d id)
  | _ => none

/-- what a message is, without its numbers: NDATA = `some none`, DDATA of `d` = `some (some d)` -/
def Msg.dataShape : Msg → Option (Option Nat)
  | .ndata _ _ _ => some none
  | .ddata d _ _ _ => some (some d)
  | _ => none

namespace Sys

def init (cfg : Host.Cfg) (devs : List Dev) : Sys := { node := { devs := devs }, cfg := cfg }

/-- the node handed messages over to its (connected, accepting) client -/
def send (s : Sys) (n : Node) (ms : List Msg) : Sys :=
  { s with node := n, toHost := s.toHost ++ ms, sent := s.sent ++ ms }

/-- the host actor handles one input at the current clock reading; NCMDs it publishes reach the
broker only while the host is connected -/
def hostStep (s : Sys) (i : Host.In) : Sys :=
  let r := Host.step s.cfg s.host i s.clock s.clock
  { s with host := r.1, effs := s.effs ++ r.2,
           toNode := if s.hostConn then s.toNode + r.2.count Eff.ncmd else s.toNode }

/-- the broker hands `m` to the host (lost if the host is not connected) -/
def recv (s : Sys) (m : Msg) : Sys := if s.hostConn then s.hostStep m.toIn else s

def step (s : Sys) : Action → Sys
  | .publishNode => let r := s.node.pubNode s.clock; s.send r.1 r.2
  | .publishDev d => let r := s.node.pubDev d s.clock; s.send r.1 r.2
  | .enable d => let r := s.node.enable d s.clock; s.send r.1 r.2
  | .disable d => let r := s.node.disable d s.clock; s.send r.1 r.2
  | .manualRebirth => let r := s.node.rebirth s.clock; s.send r.1 r.2
  | .deliver k =>
    match s.toHost[k]? with
    | none => s
    | some m => recv { s with toHost := s.toHost.eraseIdx k } m
  | .duplicate k =>
    match s.toHost[k]? with
    | none => s
    | some m => { s with toHost := s.toHost ++ [m] }
  | .drop k =>
    match s.toHost[k]? with
    | none => s
    | some m => if m.qos0 then { s with toHost := s.toHost.eraseIdx k } else s
  | .deliverNcmd =>
    if s.toNode = 0 then s
    else
      let s1 := { s with toNode := s.toNode - 1 }
      if s1.nodeConn then let r := s1.node.rebirth s1.clock; s1.send r.1 r.2 else s1
  | .dropNcmd => { s with toNode := s.toNode - 1 }
  | .nodeDisconnect =>
    if !s.nodeConn then s
    else
      -- the broker publishes the registered will; the node's client goes offline and registers
      -- the new will for its next connection
      let r := s.node.goOffline
      { s with node := r.1, nodeConn := false, toHost := s.toHost ++ [.ndeath s.will],
               sent := s.sent ++ [.ndeath s.will], will := r.2.getD s.will }
  | .nodeConnect =>
    if s.nodeConn then s
    else let r := s.node.goOnline s.clock; { s.send r.1 r.2 with nodeConn := true }
  | .hostDisconnect =>
    if !s.hostConn then s else { s.hostStep .offline with hostConn := false }
  | .hostConnect => { s with hostConn := true }
  | .advance ms =>
    let s1 := { s with clock := s.clock + ms }
    match s1.host.timer with
    | .armed dl => if dl ≤ s1.clock then s1.hostStep .timerFire else s1
    | _ => s1

def run (s : Sys) : List Action → Sys
  | [] => s
  | a :: as => run (s.step a) as

/-! ### the fault-free continuation -/

/-- deliver the `k` oldest in-flight messages in order -/
def deliverAll : Nat → Sys → Sys
  | 0, s => s
  | k + 1, s => deliverAll k (s.step (.deliver 0))

/-- deliver everything in flight (FIFO), then, as long as rebirth NCMDs are in flight, let the
clock advance, deliver one and deliver the births it caused -/
def drainNet : Nat → Sys → Sys
  | 0, s => deliverAll s.toHost.length s
  | f + 1, s =>
    let s1 := deliverAll s.toHost.length s
    if s1.toNode = 0 then s1 else drainNet f ((s1.step (.advance 1)).step .deliverNcmd)

def drain (s : Sys) : Sys := drainNet (s.toNode + s.toHost.length) s

def reconnect (s : Sys) : Sys :=
  let s := if s.hostConn then s else s.step .hostConnect
  if s.nodeConn then s else (s.step (.advance 1)).step .nodeConnect

/-- let the clock pass the deadline of an armed reorder timer (which fires) -/
def timerPhase (s : Sys) : Sys :=
  match s.host.timer with
  | .armed dl => s.step (.advance (dl - s.clock))
  | _ => s

/-- the node publishes once on the node metric and once on every enabled device -/
def pubAll (s : Sys) : Sys :=
  let s := (s.step (.advance 1)).step .publishNode
  s.node.enabledNames.foldl (fun s d => s.step (.publishDev d)) s

/-- one settling round; returns the host's effects since the round's publishes -/
def round (s : Sys) : Sys × List Host.Eff :=
  let s := drain (reconnect s)
  let s := drain (timerPhase s)
  let s := pubAll s
  let mark := s.effs.length
  let s := drain s
  (s, s.effs.drop mark)

/-- `k` settling rounds; returns the host's effects since the last round's publishes -/
def settle : Nat → Sys → Sys × List Host.Eff
  | 0, s => (s, [])
  | k + 1, s => round (settle k s).1

/-! ### `InSync` -/

/-- the host's view agrees with the node, nothing is in flight, and `last` (the host's effects
since the last publishes) is exactly: the node's last `1 + #enabled` hand-overs — an NDATA and
one DDATA per enabled device — applied in publish order, and nothing else. -/
def InSync (s : Sys) (last : List Host.Eff) : Bool :=
  s.nodeConn && s.hostConn && s.node.online && s.node.birthed &&
  decide (s.host.life = .birthed) &&
  decide (s.host.reseq = { buf := [], next := (s.node.seq + 1) % 256, mode := .good }) &&
  decide (s.host.timer = .none) &&
  s.node.devs.all (fun x => !x.enabled || decide (Host.findDev x.name s.host.devices = some .birthed)) &&
  s.host.devices.all (fun p => decide (p.2 = .stale) || s.node.enabledNames.contains p.1) &&
  s.toHost.isEmpty && decide (s.toNode = 0) &&
  (let tail := s.sent.drop (s.sent.length - (s.node.enabledNames.length + 1))
   decide (tail.map Msg.dataShape = some none :: s.node.enabledNames.map (fun d => some (some d))) &&
   decide (last = tail.filterMap Msg.dataEff))

/-- the configuration of the convergence theorem: every rebirth switch on, a reorder timeout,
no cooldown, resequencing on -/
def fullCfg (timeout : Nat) : Host.Cfg :=
  { invalidPayload := true, outOfSyncBdSeq := true, unknownNode := true, unknownDevice := true,
    unknownMetric := true, reorderFailure := true, recordedStateStale := true,
    reorderTimeout := some timeout, cooldown := 0, resequence := true }

end Sys

end Srad.Loop
