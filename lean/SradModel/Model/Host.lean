/-
M9 — model of the host application's per-node actor (`srad_app::generic_app::Node`) and of the
application's dispatcher (`Application::handle_event`), srad-app/src/generic_app.rs.

One `step` = the actor handling one input to completion (the property's "with quiescence"
granularity). Inputs are already validated messages (C14), the host going offline, a reason
arriving on the rebirth channel, or the reorder-timeout task firing. Each step is given the two
clock readings it consults: `now` (srad's `timestamp()`, ms) and `wall` (`SystemTime::now()`,
used by the cooldown). The `MetricStore`s are user code: the answer a store gives when a message
is applied travels with the message (`ans`), so the theorems quantify over every store.

Effects are what is observable: calls on the node's store and on each device's store, the
device-created callback, the NCMD rebirth publish, and the reorder timer being started /
cancelled.
Imports only other models (linked into `srad_model`).
-/
import SradModel.Model.Reseq

namespace Srad.Host

/-- `RebirthReason` -/
inductive Reason where
  | invalidPayload | outOfSyncBdSeq | unknownNode | unknownDevice | unknownMetric
  | reorderTimeout | reorderFail | recordedStateStale
  deriving DecidableEq, Repr

/-- `RebirthConfig` + `resequence_messages` -/
structure Cfg where
  invalidPayload : Bool
  outOfSyncBdSeq : Bool
  unknownNode : Bool
  unknownDevice : Bool
  unknownMetric : Bool
  reorderFailure : Bool
  recordedStateStale : Bool
  reorderTimeout : Option Nat
  cooldown : Nat
  resequence : Bool
  deriving Repr

/-- `RebirthConfig::evaluate_rebirth_reason` -/
def Cfg.enabled (c : Cfg) : Reason → Bool
  | .invalidPayload => c.invalidPayload
  | .outOfSyncBdSeq => c.outOfSyncBdSeq
  | .unknownNode => c.unknownNode
  | .unknownDevice => c.unknownDevice
  | .unknownMetric => c.unknownMetric
  | .reorderTimeout => c.reorderTimeout.isSome
  | .reorderFail => c.reorderFailure
  | .recordedStateStale => c.recordedStateStale

inductive Life where
  | birthed | stale
  deriving DecidableEq, Repr

/-- `resequence_timeout_task : Option<AbortHandle>`: `none`; `armed` = `Some`, task sleeping;
`fired` = `Some`, task has completed (the handle is only taken by `cancel_reorder_timeout`) -/
inductive Timer where
  | none
  | armed (deadline : Nat)
  | fired
  deriving DecidableEq, Repr

/-- what the store answers when a message is applied to it -/
inductive Ans where
  | ok | invalid | unknownMetric
  deriving DecidableEq, Repr

/-- a resequenceable message (`ResequenceableEvent`); `id` identifies the message in effects,
`dev` is the device name (an opaque token) -/
inductive RMsg where
  | ndata (id : Nat) (ans : Ans)
  | dbirth (dev : Nat) (id : Nat) (ans : Ans)
  | ddeath (dev : Nat) (id : Nat)
  | ddata (dev : Nat) (id : Nat) (ans : Ans)
  deriving DecidableEq, Repr

inductive In where
  | nbirth (ts bdseq : Nat) (id : Nat) (ans : Ans)
  | ndeath (bdseq : Nat)                 -- the arrival time is the step's `now`
  | rmsg (seq ts : Nat) (m : RMsg)
  | offline
  | rebirthReq (r : Reason)              -- a reason taken from the rebirth channel
  | timerFire                            -- the reorder-timeout task completes
  deriving DecidableEq, Repr

inductive Eff where
  | nodeBirth (id : Nat) (ok : Bool)     -- node store `update_from_birth` and whether it accepted
  | nodeData (id : Nat)                  -- node store `update_from_data`
  | nodeStale                            -- node store `set_stale`
  | devCreated (dev : Nat)               -- device-created callback
  | devBirth (dev : Nat) (id : Nat) (ok : Bool)
  | devData (dev : Nat) (id : Nat)
  | devStale (dev : Nat)
  | ncmd                                 -- Node Control/Rebirth = true published to this node
  | timerStart
  | timerCancel
  deriving DecidableEq, Repr

structure St where
  life : Life := .stale
  birthTs : Nat := 0
  staleTs : Nat := 0
  bdseq : Nat := 0
  lastRebirth : Nat := 0
  reseq : Reseq.St (Nat × RMsg) := Reseq.init     -- buffered (seq, message)
  devices : List (Nat × Life) := []               -- insertion order; names unique
  timer : Timer := .none
  deriving Repr

def init : St := {}

/-- `cancel_reorder_timeout` -/
def cancelTimer (s : St) : St × List Eff :=
  match s.timer with
  | .none => (s, [])
  | _ => ({ s with timer := .none }, [.timerCancel])

/-- `Node::set_stale(timestamp)` -/
def setStale (s : St) (t : Nat) : St × List Eff :=
  if s.life = .stale then (s, [])
  else if t < s.birthTs then (s, [])
  else
    let (s1, e1) := cancelTimer { s with reseq := Reseq.init }
    ({ s1 with life := .stale, staleTs := t, devices := s1.devices.map fun d => (d.1, .stale) },
     e1 ++ [.nodeStale] ++ s1.devices.map fun d => .devStale d.1)

/-- `eval_rebirth` then `issue_rebirth` -/
def issueRebirth (c : Cfg) (s : St) (r : Reason) (now wall : Nat) : St × List Eff :=
  if !c.enabled r then (s, [])
  else if wall - s.lastRebirth < c.cooldown then (s, [])
  else
    let (s1, e1) := setStale { s with lastRebirth := wall } now
    (s1, e1 ++ [.ncmd])

def findDev (d : Nat) : List (Nat × Life) → Option Life
  | [] => none
  | (d', l) :: t => if d' = d then some l else findDev d t

def setDev (d : Nat) (l : Life) : List (Nat × Life) → List (Nat × Life)
  | [] => []
  | (d', l') :: t => if d' = d then (d', l) :: t else (d', l') :: setDev d l t

/-- `process_in_sequence_message` -/
def apply (s : St) : RMsg → St × List Eff × Option Reason
  | .ndata id ans =>
    (s, [.nodeData id], match ans with | .ok => none | .invalid => some .invalidPayload | .unknownMetric => some .unknownMetric)
  | .dbirth d id ans =>
    let pr : List (Nat × Life) × List Eff := match findDev d s.devices with
      | some _ => (s.devices, [])
      | none => (s.devices ++ [(d, Life.stale)], [Eff.devCreated d])
    if ans = Ans.ok then
      ({ s with devices := setDev d Life.birthed pr.1 }, pr.2 ++ [Eff.devBirth d id true], none)
    else ({ s with devices := pr.1 }, pr.2 ++ [Eff.devBirth d id false], some Reason.invalidPayload)
  | .ddeath d _ =>
    match findDev d s.devices with
    | none => (s, [], some .unknownDevice)
    | some _ => ({ s with devices := setDev d .stale s.devices }, [.devStale d], none)
  | .ddata d id ans =>
    match findDev d s.devices with
    | none => (s, [], some .unknownDevice)
    | some .stale => (s, [], some .recordedStateStale)
    | some .birthed =>
      (s, [.devData d id],
        match ans with
        | .ok => none
        | .invalid => some .invalidPayload
        | .unknownMetric => some .unknownMetric)

/-- `start_reorder_timeout` (only called with no live timer) -/
def startTimer (c : Cfg) (s : St) (now : Nat) : St × List Eff :=
  match c.reorderTimeout with
  | some d => ({ s with timer := .armed (now + d) }, [.timerStart])
  | none => (s, [])

/-- `drain_resequence_buffer`; fuel = buffer length + 1 (never exhausted, see proofs).
`released` says whether this call has already released a buffered message: only then, when a
different gap remains (`SequenceMissing`), is the reorder timeout restarted for that gap. -/
def drainBuf (c : Cfg) (now : Nat) : Nat → Bool → St → List Eff → St × List Eff × Option Reason
  | 0, _, s, acc => (s, acc, none)
  | fuel + 1, released, s, acc =>
    match Reseq.drain s.reseq with
    | (r', .msg m) =>
      match apply { s with reseq := r' } m.2 with
      | (s1, e1, none) => drainBuf c now fuel true s1 (acc ++ e1)
      | (s1, e1, some r) => (s1, acc ++ e1, some r)
    | (r', .empty) =>
      let (s1, e1) := cancelTimer { s with reseq := r' }
      (s1, acc ++ e1, none)
    | (r', .missing) =>
      if released then
        let (s1, e1) := cancelTimer { s with reseq := r' }
        let (s2, e2) := startTimer c s1 now
        (s2, acc ++ e1 ++ e2, none)
      else ({ s with reseq := r' }, acc, none)
    | (r', .panic) => ({ s with reseq := r' }, acc, none)

/-- `handle_resequencable_message` -/
def handleRMsg (c : Cfg) (s : St) (seq ts : Nat) (m : RMsg) (now : Nat) : St × List Eff × Option Reason :=
  if ts < s.birthTs ∨ ts < s.staleTs then (s, [], none)
  else if s.life ≠ .birthed then (s, [], some .recordedStateStale)
  else if !c.resequence then apply s m
  else
    match Reseq.process s.reseq seq (seq, m) with
    | (r', .inserted) =>
      let s1 := { s with reseq := r' }
      match s1.timer with
      | .none => let (s2, e2) := startTimer c s1 now; (s2, e2, none)
      | _ => (s1, [], none)
    | (r', .dup) => ({ s with reseq := r' }, [], some .reorderFail)
    | (r', .next m') =>
      match apply { s with reseq := r' } m'.2 with
      | (s1, e1, some r) => (s1, e1, some r)
      | (s1, e1, none) => drainBuf c now (s1.reseq.buf.length + 1) false s1 e1

/-- `handle_birth` -/
def handleBirth (c : Cfg) (s : St) (ts bdseq id : Nat) (ans : Ans) (now wall : Nat) : St × List Eff :=
  if ts ≤ s.birthTs then (s, [])
  else
    -- every NBIRTH that is strictly newer is shown to the store (a rebirth keeps the bdSeq and may
    -- define a different metric set; replays were filtered by the timestamp test above)
    if ans ≠ .ok then
      let (s1, e1) := issueRebirth c s .invalidPayload now wall
      (s1, [.nodeBirth id false] ++ e1)
    else
      let (s1, e1) := cancelTimer s
      -- a new node birth invalidates the births of its devices: the ones held birthed are told so
      let e2 := (s1.devices.filter fun d => d.2 == Life.birthed).map fun d => Eff.devStale d.1
      ({ s1 with birthTs := ts, life := .birthed, bdseq := bdseq, reseq := Reseq.setNext Reseq.init 1, devices := s1.devices.map fun d => (d.1, Life.stale) }, [Eff.nodeBirth id true] ++ e1 ++ e2)

/-- `handle_message` / the `rebirth_rx` arm of `Node::run` -/
def step (c : Cfg) (s : St) (i : In) (now wall : Nat) : St × List Eff :=
  match i with
  | .nbirth ts bd id ans => handleBirth c s ts bd id ans now wall
  | .ndeath bd =>
    let (s1, e1) := cancelTimer s
    let (s2, e2) := setStale s1 now
    if bd ≠ s2.bdseq then
      let (s3, e3) := issueRebirth c s2 .outOfSyncBdSeq now wall
      (s3, e1 ++ e2 ++ e3)
    else (s2, e1 ++ e2)
  | .rmsg seq ts m =>
    match handleRMsg c s seq ts m now with
    | (s1, e1, none) => (s1, e1)
    | (s1, e1, some r) =>
      let (s2, e2) := issueRebirth c s1 r now wall
      (s2, e1 ++ e2)
  | .offline => setStale s now
  | .rebirthReq r => issueRebirth c s r now wall
  | .timerFire =>
    match s.timer with
    | .armed _ => issueRebirth c { s with timer := .fired } .reorderTimeout now wall
    | _ => (s, [])

/-- a history: inputs with the clock readings of their steps -/
structure Ev where
  inp : In
  now : Nat
  wall : Nat
  deriving Repr

def run (c : Cfg) (s : St) : List Ev → St × List Eff
  | [] => (s, [])
  | e :: es =>
    let (s1, f1) := step c s e.inp e.now e.wall
    let (s2, f2) := run c s1 es
    (s2, f1 ++ f2)

/-! ### the application dispatcher (`Application::handle_event`) -/

/-- what the event loop hands to the application, already validated (C14) -/
inductive AppIn where
  | node (n : Nat) (i : In)          -- `i` is nbirth / ndeath / rmsg
  | invalidPayload (n : Nat)         -- AppEvent::InvalidPayload for node `n`
  | online
  | offline
  | timerFire (n : Nat)              -- node `n`'s reorder-timeout task completes
  deriving DecidableEq, Repr

inductive AppEff where
  | nodeCreated (n : Nat)
  | node (n : Nat) (e : Eff)
  deriving DecidableEq, Repr

abbrev Nodes := List (Nat × St)

/-- the application: is the host online (as the event loop sees it), and its node actors -/
structure App where
  online : Bool := false
  nodes : Nodes := []
  deriving Repr

def findNode (n : Nat) : Nodes → Option St
  | [] => none
  | (n', s) :: t => if n' = n then some s else findNode n t

def setNode (n : Nat) (s : St) : Nodes → Nodes
  | [] => [(n, s)]
  | (n', s') :: t => if n' = n then (n', s) :: t else (n', s') :: setNode n s t

def stepNode (c : Cfg) (a : App) (n : Nat) (s : St) (i : In) (now wall : Nat) (pre : List AppEff) :
    App × List AppEff :=
  let (s', e) := step c s i now wall
  ({ a with nodes := setNode n s' a.nodes }, pre ++ e.map (AppEff.node n))

def offlineAll (c : Cfg) (now wall : Nat) : Nodes → Nodes × List AppEff
  | [] => ([], [])
  | (n, s) :: t =>
    let (s', e) := step c s .offline now wall
    let (t', e') := offlineAll c now wall t
    ((n, s') :: t', e.map (AppEff.node n) ++ e')

def appStep (c : Cfg) (a : App) (i : AppIn) (now wall : Nat) : App × List AppEff :=
  match i with
  | .node n (.nbirth ts bd id ans) =>
    match findNode n a.nodes with
    | some s => stepNode c a n s (.nbirth ts bd id ans) now wall []
    | none => stepNode c a n init (.nbirth ts bd id ans) now wall [.nodeCreated n]
  | .node n (.ndeath bd) =>
    match findNode n a.nodes with
    | some s => stepNode c a n s (.ndeath bd) now wall []
    | none => (a, [])
  | .node n inp =>
    match findNode n a.nodes with
    | some s => stepNode c a n s inp now wall []
    | none => stepNode c a n init (.rebirthReq .unknownNode) now wall [.nodeCreated n]
  | .invalidPayload n =>
    if c.invalidPayload then
      match findNode n a.nodes with
      | some s => stepNode c a n s (.rebirthReq .invalidPayload) now wall []
      | none => stepNode c a n init (.rebirthReq .invalidPayload) now wall [.nodeCreated n]
    else (a, [])
  | .online => ({ a with online := true }, [])
  | .offline =>
    -- `AppEventLoop::handle_offline`: a duplicate Offline is swallowed by the event loop
    if a.online then
      let (ns, e) := offlineAll c now wall a.nodes
      ({ online := false, nodes := ns }, e)
    else (a, [])
  | .timerFire n =>
    match findNode n a.nodes with
    | some s => stepNode c a n s .timerFire now wall []
    | none => (a, [])

/-! ### the application's run loop (`Application::run`) and `AppClient::cancel()` -/

/-- where `Application::run` is: `running` = `loop { poll; handle_event }`; `stopping` = the event
loop has taken the stop request of `AppClient::cancel()` and sits in `poll_until_offline_with_timeout`
(everything the client's event loop yields is swallowed there, only an Offline is noted; the node
actors and their reorder-timeout tasks are still alive); `returned` = `AppEvent::Cancelled` was
handled, `run()` has returned and the application with its node handles is dropped (the actors end
when their queues are drained, the timeout tasks have nobody left to tell) -/
inductive Phase where
  | running | stopping | returned
  deriving DecidableEq, Repr

/-- what happens to the run loop: the event loop yields an event (or a timeout task completes), it
takes the stop request, or it yields `AppEvent::Cancelled` (the final Offline was seen / the bounded
wait of 1 s is over) -/
inductive RunIn where
  | ev (i : AppIn)
  | stop
  | cancelled
  deriving DecidableEq, Repr

structure RunApp where
  app : App := {}
  phase : Phase := .running
  deriving Repr

/-- `Application::run` around `appStep`. `AppEvent::Cancelled` is `return false`: NOTHING is sent to
any node actor (a send into a node's bounded queue could wait for an actor that is itself waiting
for the client), no store is touched; the loop just ends. -/
def runStep (c : Cfg) (r : RunApp) (i : RunIn) (now wall : Nat) : RunApp × List AppEff :=
  match r.phase with
  | .returned => (r, [])
  | .running =>
    match i with
    | .ev j => let x := appStep c r.app j now wall; ({ r with app := x.1 }, x.2)
    | .stop => ({ r with phase := .stopping }, [])
    | .cancelled => ({ r with phase := .returned }, [])
  | .stopping =>
    match i with
    | .ev (.timerFire n) => let x := appStep c r.app (.timerFire n) now wall; ({ r with app := x.1 }, x.2)
    | .ev .offline => ({ r with app := { r.app with online := false } }, [])   -- `handle_offline`, result dropped
    | .ev _ => (r, [])                                                          -- swallowed by `poll_until_offline`
    | .stop => (r, [])
    | .cancelled => ({ r with phase := .returned }, [])

/-- a history of the run loop with the clock readings of its steps -/
def runAll (c : Cfg) (r : RunApp) : List (RunIn × Nat × Nat) → RunApp × List AppEff
  | [] => (r, [])
  | (i, now, wall) :: t =>
    let (r1, e1) := runStep c r i now wall
    let (r2, e2) := runAll c r1 t
    (r2, e1 ++ e2)

/-- the history of a cancel: the stop request is taken at `t1`, the client's event loop yields `evs`
meanwhile, `Cancelled` arrives at `t2` -/
def cancelHist (evs : List (AppIn × Nat × Nat)) (t1 t2 : Nat) : List (RunIn × Nat × Nat) :=
  (RunIn.stop, t1, t1) :: (evs.map (fun x => (RunIn.ev x.1, x.2.1, x.2.2)) ++ [(RunIn.cancelled, t2, t2)])

end Srad.Host
