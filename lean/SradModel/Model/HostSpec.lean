/-
Vocabulary for stating C05 / C06 / C07 / C14 about `Model/Host`: lifecycle as told by the effect
trace, the reachable-state invariant, the reason an input raises. Definitions only.
-/
import SradModel.Model.Host
import SradModel.Model.ReseqSpec

namespace Srad.Host

/-- lifecycle of the node's store as the effect trace tells it: the latest lifecycle effect
(`update_from_birth` that was accepted / `set_stale`) decides -/
def nodeLife : Life → List Eff → Life
  | l, [] => l
  | _, .nodeBirth _ true :: t => nodeLife .birthed t
  | _, .nodeStale :: t => nodeLife .stale t
  | l, _ :: t => nodeLife l t

/-- the same for the store of device `d` -/
def devLife (d : Nat) : Life → List Eff → Life
  | l, [] => l
  | l, .devBirth d' _ true :: t => if d' = d then devLife d .birthed t else devLife d l t
  | l, .devStale d' :: t => if d' = d then devLife d .stale t else devLife d l t
  | l, _ :: t => devLife d l t

/-- what the state records for device `d` (an unknown device counts as stale) -/
def devState (s : St) (d : Nat) : Life := (findDev d s.devices).getD .stale

/-- **C06, first sentence, as a predicate on an effect trace** that starts with the node's
store in lifecycle `ln` and device stores in `ld`: every data effect on the node's store is
preceded, most recently among that store's lifecycle effects, by an accepted birth; every data
effect on a device's store likewise, for the node and for that device. -/
def DataGuarded (ln : Life) (ld : Nat → Life) (es : List Eff) : Prop :=
  (∀ pre post id, es = pre ++ Eff.nodeData id :: post → nodeLife ln pre = .birthed) ∧
  (∀ pre post d id, es = pre ++ Eff.devData d id :: post →
      nodeLife ln pre = .birthed ∧ devLife d (ld d) pre = .birthed)

/-- Reachable-state invariant of the per-node actor. -/
def HostInv (s : St) : Prop :=
  Reseq.Inv s.reseq ∧
  (s.life = .stale → s.reseq = Reseq.init ∧ s.timer = .none ∧ ∀ d ∈ s.devices, d.2 = .stale) ∧
  (s.devices.map Prod.fst).Nodup

/-- an input is well formed: sequence numbers and bdSeq are `u8` -/
def In.WF : In → Prop
  | .nbirth _ bd _ _ => bd < 256
  | .ndeath bd => bd < 256
  | .rmsg seq _ _ => seq < 256
  | _ => True

/-- the cooldown does not suppress a rebirth now -/
def CooldownOk (c : Cfg) (s : St) (wall : Nat) : Prop := c.cooldown ≤ wall - s.lastRebirth

/-- The reason (if any) that handling input `i` in state `s` raises, before the switches and the
cooldown are consulted. This is read off the handlers; the `C07_trigger_*` theorems characterise
it declaratively, trigger by trigger. -/
def raised (c : Cfg) (s : St) (i : In) (now : Nat) : Option Reason :=
  match i with
  | .nbirth ts _ _ ans =>
    if ts ≤ s.birthTs then none
    else if ans ≠ .ok then some .invalidPayload else none
  | .ndeath bd =>
    -- `set_stale` does not change `bdseq`
    if bd ≠ s.bdseq then some .outOfSyncBdSeq else none
  | .rmsg seq ts m => (handleRMsg c s seq ts m now).2.2
  | .offline => none
  | .rebirthReq r => some r
  | .timerFire => match s.timer with | .armed _ => some .reorderTimeout | _ => none

/-- messages applied to the stores by one step, with the sequence number each arrived with
(ghost instrumentation of `handleRMsg`: same control flow, returns the numbers only) -/
def drainSeqs : Nat → Reseq.St (Nat × RMsg) → St → List Nat → List Nat
  | 0, _, _, acc => acc
  | fuel + 1, r, s, acc =>
    match Reseq.drain r with
    | (r', .msg m) =>
      match apply { s with reseq := r' } m.2 with
      | (s1, _, none) => drainSeqs fuel r' s1 (acc ++ [m.1])
      | (_, _, some _) => acc ++ [m.1]
    | _ => acc

def appliedSeqs (c : Cfg) (s : St) (i : In) : List Nat :=
  match i with
  | .rmsg seq ts m =>
    if ts < s.birthTs ∨ ts < s.staleTs then []
    else if s.life ≠ .birthed then []
    else if !c.resequence then [seq]
    else
      match Reseq.process s.reseq seq (seq, m) with
      | (r', .next m') =>
        match apply { s with reseq := r' } m'.2 with
        | (_, _, some _) => [m'.1]
        | (s1, _, none) => drainSeqs (s1.reseq.buf.length + 1) s1.reseq s1 [m'.1]
      | _ => []
  | _ => []

/-- effects that touch a store with a message (what "applied" means) -/
def Eff.isApply : Eff → Bool
  | .nodeData _ | .devBirth _ _ _ | .devData _ _ | .devStale _ => true
  | _ => false

end Srad.Host

namespace Srad.Host

/-- a message with sequence number `seq` would be handled in sequence right now: resequencing is
off, or it is the expected number and no message with that number is waiting in the buffer -/
def InSeq (c : Cfg) (s : St) (seq : Nat) : Prop :=
  c.resequence = false ∨ (seq = s.reseq.next ∧ ∀ x ∈ s.reseq.buf, x.2.1 ≠ seq)

/-- the message is not older than the current birth or the last staleness -/
def Fresh (s : St) (ts : Nat) : Prop := s.birthTs ≤ ts ∧ s.staleTs ≤ ts

/-- apply messages one after the other (publish order); stops at the first reason raised -/
def applyAll (s : St) : List RMsg → St × List Eff × Option Reason
  | [] => (s, [], none)
  | m :: t =>
    match apply s m with
    | (s1, e1, none) =>
      match applyAll s1 t with
      | (s2, e2, r) => (s2, e1 ++ e2, r)
    | (s1, e1, some r) => (s1, e1, some r)

/-- timer effects are internal; everything else is observable at the stores / the client -/
def Eff.observable : Eff → Bool
  | .timerStart | .timerCancel => false
  | _ => true

/-- delivery `i` of a publisher session that started with an NBIRTH (seq 0): message number `i`
(0-based) carries sequence number `(1 + i) % 256` -/
def sessEv (ts : Nat → Nat) (msgs : Nat → RMsg) (clk : Nat → Nat × Nat) (i : Nat) : Ev :=
  { inp := .rmsg ((1 + i) % 256) (ts i) (msgs i), now := (clk i).1, wall := (clk i).2 }

/-- an example configuration (srad's defaults, with the given timeout and cooldown) -/
def exampleCfg (timeout : Option Nat) (cooldown : Nat) : Cfg :=
  Cfg.mk false true true true true true true timeout cooldown true

end Srad.Host
