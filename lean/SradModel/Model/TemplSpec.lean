/-
Vocabulary used only to *state* the C18 theorems: what "a template nested anywhere in a
definition" means, when a definition is well formed, when a registry is closed under nesting.
Declarative (inductive predicates), independent of the control flow of `checkMetrics`.
-/
import SradModel.Model.Templ

namespace Srad.Templ
open Srad.Codec (Bytes)

/-- `Nests m r`: the metric `m` is declared as a template (datatype = Template, value = a template
value) and the template definition named `r` is referred to by it or by a template nested, at any
depth, inside its value. -/
inductive Nests : Metric → Bytes → Prop
  | here {rest v r d ms ps} :
      Nests (.templ rest (some templateCode) v (some r) d ms ps) r
  | deeper {rest v ref d ms ps m r} :
      m ∈ ms → Nests m r → Nests (.templ rest (some templateCode) v ref d ms ps) r

/-- a metric of a template definition is well formed: it has a datatype that is one of the 35
Sparkplug datatypes, and if that datatype is Template then its value is a template value that
names its definition (`template_ref`) and whose own metrics are well formed. (A metric of any
other datatype is not looked at further.) -/
inductive WF : Metric → Prop
  | plain {rest c val} :
      validDatatype c = true → c ≠ templateCode → WF (.plain rest (some c) val)
  | skipped {rest c v ref d ms ps} :
      validDatatype c = true → c ≠ templateCode → WF (.templ rest (some c) v ref d ms ps)
  | templ {rest v r d ms ps} :
      (∀ m ∈ ms, WF m) → WF (.templ rest (some templateCode) v (some r) d ms ps)

/-- the definition nests (anywhere, recursively) a template named `r` -/
def TDef.Nests (d : TDef) (r : Bytes) : Prop := ∃ m ∈ d.metrics, Srad.Templ.Nests m r

/-- every metric of the definition is well formed -/
def TDef.WF (d : TDef) : Prop := ∀ m ∈ d.metrics, Srad.Templ.WF m

/-- the names registered, in registration order -/
def Registry.names (r : Registry) : List Bytes := r.map (·.1)

/-- closed under nesting: every template nested anywhere in a registered definition is itself
registered -/
def Closed (r : Registry) : Prop :=
  ∀ e ∈ r, ∀ ref, e.2.Nests ref → r.has ref = true

/-- stronger, with the order of registration: everything a registered definition nests was
registered *before* it -/
def NestedBefore : Registry → Prop
  | r => ∀ (pre : Registry) (e : Bytes × TDef) (post : Registry),
      r = pre ++ e :: post → ∀ ref, e.2.Nests ref → pre.has ref = true

/-- a history that only registers (attempts may fail) -/
def registrations (attempts : List (Bytes × TDef)) : List Op :=
  attempts.map (fun a => .register a.1 a.2)

end Srad.Templ
