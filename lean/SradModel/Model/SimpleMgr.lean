/-
M16 — `SimpleMetricManager` / `SimpleManagerMetric` / `SimpleMetricBuilder`
(srad-eon/src/metric_manager/simple.rs) as a STATE MACHINE over operation sequences.

State (`St H`, `H` = the handle type parameter of `SimpleMetricManager<H>`):
* `metrics`  — `SimpleMetricManagerInner::metrics`, one `Entry` per registered name: the Rust
  type `T` of the metric (one of the thirteen scalar types of `Codec.STy`), its CURRENT value,
  `use_alias`, whether a command handler is set, the id of the `MetricToken` of the latest birth
  (`MetricData::token`), whether the entry's own mutex is poisoned. The list is in registration
  order; the `HashMap`'s iteration order at a birth is an explicit parameter (`order`, a list of
  names: any permutation of the registered names; anything else stands for registration order).
* `lookup`   — `cmd_lookup`: `MetricId ↦` the `Arc` of an entry. Entries are never removed, so
  the `Arc` is identified with the entry's name.
* `handle`   — `Option<H>`, set by `init`.
* `dead`     — the `inner` mutex is poisoned: `initialise_birth` panicked (`.unwrap()` of a refused
  registration) while holding it. Every later `inner.lock().unwrap()` panics.

Operations: `register` (`register_metric`), `initialiseBirth` (`MetricManager::initialise_birth`
on a `BirthInitializer` in ANY state — `Birth.Init`, the model of birth.rs is reused:
`Birth.registerMetric`), `update` (`SimpleManagerMetric::update`), `publish`
(`publish_metric(s)`), `command` (`on_ncmd` / `on_dcmd` = `handle_cmd_metrics`), `init`.

User code is a parameter: the closure of `update` is any `f : SV → SV`; what a command handler
does is not part of the manager: `command` returns the list of handler invocations (which
handler, with which converted value, in call order); `echoHandler` is the handler of the crate's
doc example (update the metric to the received value and publish it), composed from `update` and
`publish`. The handle `H` is a type parameter of the real code too: `publish` returns what is
handed to `H::publish_metrics` (nothing, when there is no handle).

Panics are the explicit outcome `R.panic`. Values: `SV` (bit patterns) of Rust type `ty`;
`T::into(MetricValue)` = `Codec.toProto ty`, `T::try_from(MetricValue)` = `Codec.fromProto ty`
(both tied to srad-types by component `codec`, C10).

Imports only other models (linked into `srad_model`).
-/
import SradModel.Model.Birth
import SradModel.Model.Codec

namespace Srad.SimpleMgr
open Srad.Birth Srad.Codec

/-- `<T as HasDataType>::default_datatype()` as the protobuf `DataType` code (equal to
`(Derive.dtOf ty).code`: `M16_dtCode_is_default_datatype`) -/
def dtCode : STy → Nat
  | .i8 => 1 | .i16 => 2 | .i32 => 3 | .i64 => 4 | .u8 => 5 | .u16 => 6 | .u32 => 7 | .u64 => 8
  | .f32 => 9 | .f64 => 10 | .bool => 11 | .string => 12 | .datetime => 13

/-- `PublishMetric` as far as the manager is concerned: id, value, timestamp -/
abbrev PM := PublishMetric PV

/-- `MetricData<T, H>` behind the `Arc<Mutex<..>>` shared by the map entry and every
`SimpleManagerMetric` handle of that metric, plus the key it is stored under -/
structure Entry where
  name : Name
  ty : STy
  /-- `MetricData::value` -/
  value : SV
  useAlias : Bool
  /-- `MetricData::cb.is_some()` -/
  hasCb : Bool
  /-- `MetricData::token`: the id of the token of the latest birth -/
  token : Option MetricId := none
  /-- the entry's mutex was held when `birth_metric` panicked -/
  poisoned : Bool := false
  deriving DecidableEq, Repr

/-- `SimpleMetricManagerInner<H>` -/
structure St (H : Type) where
  metrics : List Entry := []
  lookup : List (MetricId × Name) := []
  handle : Option H := none
  dead : Bool := false

/-- outcome of a call that may panic -/
inductive R (α : Type) where
  | ok (v : α)
  | panic
  deriving DecidableEq

/-! ### `register_metric` -/

/-- `SimpleMetricBuilder::new(name, init).use_alias(useAlias)` [`.with_cmd_handler(..)`] handed
to `register_metric`: `false` = `None` (the name exists), `true` = `Some(handle)` -/
def register {H} (s : St H) (name : Name) (ty : STy) (init : SV) (useAlias hasCb : Bool) :
    R (St H × Bool) :=
  if s.dead then .panic
  else if name ∈ s.metrics.map (·.name) then .ok (s, false)
  else .ok ({ s with metrics := s.metrics ++ [{ name, ty, value := init, useAlias, hasCb }] }, true)

/-! ### `initialise_birth` -/

/-- the iteration order used: `order` when it is a permutation of the registered names -/
def iterOrder (ms : List Entry) (order : List Name) : List Name :=
  if order.isPerm (ms.map (·.name)) then order else ms.map (·.name)

/-- the entries in iteration order -/
def arrange (ms : List Entry) (order : List Name) : List Entry :=
  (iterOrder ms order).filterMap fun n => ms.find? (fun e => e.name = n)

/-- `BirthMetricDetails::new_with_initial_value(name, val).use_alias(metric.use_alias)` -/
def details (now : Nat) (e : Entry) : Details := ⟨e.name, e.useAlias, dtCode e.ty, now⟩

/-- `metric.value.clone()` through `T::into(MetricValue)` -/
def birthValue (e : Entry) : Val PV := .user (toProto e.ty e.value)

/-- `manager.metrics.iter_mut().for_each(|(i, x)| { let id = x.birth_metric(i, bi); .. })`:
the initializer afterwards, the tokens handed out (entry, id) in iteration order, and the entry at
which `.unwrap()` panicked, if any (the entries before it keep their new tokens) -/
def birthGo (cfg : Cfg) (h : Name → Nat) (now : Nat) :
    Init PV → List Entry → Init PV × List (Entry × MetricId) × Option Name
  | bi, [] => (bi, [], none)
  | bi, e :: t =>
    match registerMetric cfg h bi (details now e) (some (birthValue e)) with
    | .ok (id, bi') =>
      let r := birthGo cfg h now bi' t
      (r.1, (e, id) :: r.2.1, r.2.2)
    | _ => (bi, [], some e.name)

/-- `metric.token = Some(token)` for every entry that was birthed -/
def setTokens (toks : List (Entry × MetricId)) (ms : List Entry) : List Entry :=
  ms.map fun e =>
    match toks.find? (fun p => p.1.name = e.name) with
    | some p => { e with token := some p.2 }
    | none => e

def poison (n : Name) (ms : List Entry) : List Entry :=
  ms.map fun e => if e.name = n then { e with poisoned := true } else e

/-- `HashMap::insert` on an association list with unique keys -/
def hmInsert (l : List (MetricId × Name)) (k : MetricId) (v : Name) : List (MetricId × Name) :=
  if l.any (fun e => e.1 = k) then l.map (fun e => if e.1 = k then (k, v) else e)
  else l ++ [(k, v)]

/-- `cmd_lookup.into_iter().collect::<HashMap<_, _>>()`: a later pair replaces an earlier one
with the same key -/
def collect (l : List (MetricId × Name)) : List (MetricId × Name) :=
  l.foldl (fun acc e => hmInsert acc e.1 e.2) []

/-- `HashMap::get` -/
def hmGet (l : List (MetricId × Name)) (k : MetricId) : Option Name :=
  (l.find? (fun e => e.1 = k)).map (·.2)

/-- `if x.has_callback() { cmd_lookup.push((id, x.clone())) }` -/
def cmdPairs (toks : List (Entry × MetricId)) : List (MetricId × Name) :=
  (toks.filter (fun p => p.1.hasCb)).map fun p => (p.2, p.1.name)

structure BirthOut (H : Type) where
  st : St H
  /-- the initializer after the call; `none`: the call panicked (the birth is abandoned) -/
  bi : Option (Init PV)

/-- `MetricManager::initialise_birth(&self, bi)` -/
def initialiseBirth {H} (cfg : Cfg) (h : Name → Nat) (now : Nat) (order : List Name)
    (bi : Init PV) (s : St H) : BirthOut H :=
  if s.dead then ⟨s, none⟩
  else
    let r := birthGo cfg h now bi (arrange s.metrics order)
    let ms := setTokens r.2.1 s.metrics
    match r.2.2 with
    | some n => ⟨{ s with metrics := poison n ms, dead := true }, none⟩
    | none => ⟨{ s with metrics := ms, lookup := collect (cmdPairs r.2.1) }, some r.1⟩

/-! ### `SimpleManagerMetric::update` -/

/-- `metric.update(f)` on the handle `register` returned for `n`, at clock reading `now`:
the value becomes `f value`; a `PublishMetric` is produced iff the entry has a token. The call
does not touch the manager's own mutex. No such handle (`n` unregistered): nothing happens. -/
def update {H} (now : Nat) (s : St H) (n : Name) (f : SV → SV) : R (St H × Option PM) :=
  match s.metrics.find? (fun e => e.name = n) with
  | none => .ok (s, none)
  | some e =>
    if e.poisoned then .panic
    else
      .ok ({ s with metrics := s.metrics.map fun x =>
                if x.name = n then { x with value := f x.value } else x },
           e.token.map fun id => createPublish id (some (toProto e.ty (f e.value))) now)

/-! ### `publish_metric(s)` -/

inductive PubOut (H : Type) where
  /-- `Err(PublishError::State(StateError::UnBirthed))`; nothing is handed to anybody -/
  | noHandle
  /-- `handle.publish_metrics(pms).await` is the result -/
  | handed (h : H) (pms : List PM)

/-- `publish_metrics(metrics)`; `publish_metric(m)` is `publish_metrics(vec![m])` -/
def publish {H} (s : St H) (pms : List (Option PM)) : R (PubOut H) :=
  if s.dead then .panic
  else
    match s.handle with
    | none => .ok .noHandle
    | some h => .ok (.handed h (pms.filterMap id))

/-! ### `on_ncmd` / `on_dcmd` -/

/-- `MessageMetric`: id and value (`None` = the command metric's `is_null` was true) -/
structure CmdMetric where
  id : MetricId
  value : Option PV
  deriving DecidableEq, Repr

/-- one call of a command handler: `cb(manager, metric_handle(name), value)` -/
structure Invocation where
  name : Name
  value : Option SV
  deriving DecidableEq, Repr

/-- `Stored::cmd_cb` -/
def cmdCb (e : Entry) (v : Option PV) : Option Invocation :=
  if e.hasCb then
    match v with
    | some pv =>
      match fromProto e.ty pv with
      | .ok sv => some ⟨e.name, some sv⟩
      | _ => none                       -- `Err(_) => return`
    | none => some ⟨e.name, none⟩
  else none                             -- `None => return`

/-- `get_callbacks_from_cmd_message_metrics` then the calls, in message order -/
def callbacks {H} (s : St H) : List CmdMetric → List Invocation
  | [] => []
  | m :: t =>
    match hmGet s.lookup m.id with
    | none => callbacks s t
    | some n =>
      match s.metrics.find? (fun e => e.name = n) with
      | none => callbacks s t
      | some e =>
        match cmdCb e m.value with
        | some i => i :: callbacks s t
        | none => callbacks s t

/-- `handle_cmd_metrics` -/
def command {H} (s : St H) (ms : List CmdMetric) : R (List Invocation) :=
  if s.dead then .panic else .ok (callbacks s ms)

/-! ### `init` -/

def init {H} (s : St H) (h : H) : R (St H) :=
  if s.dead then .panic else .ok { s with handle := some h }

/-! ### the handler of the doc example -/

/-- `|mgr, metric, new_value| async move { if let Some(value) = new_value {
mgr.publish_metric(metric.update(|x| *x = value)).await; } }` -/
def echoHandler {H} (now : Nat) (s : St H) (i : Invocation) : St H × Option (R (PubOut H)) :=
  match i.value with
  | none => (s, none)
  | some v =>
    match update now s i.name (fun _ => v) with
    | .ok (s', pm) => (s', some (publish s' [pm]))
    | .panic => (s, some .panic)

/-! ### operation sequences -/

inductive Op (H : Type) where
  | register (name : Name) (ty : STy) (init : SV) (useAlias hasCb : Bool)
  | birth (cfg : Cfg) (h : Name → Nat) (now : Nat) (order : List Name) (bi : Init PV)
  | update (now : Nat) (name : Name) (f : SV → SV)
  | publish (pms : List (Option PM))
  | command (ms : List CmdMetric)
  | init (h : H)

/-- the state after one operation (a panicking call leaves the state as it was, except for the
birth, which poisons) -/
def step {H} (s : St H) : Op H → St H
  | .register n ty v a c =>
    match register s n ty v a c with
    | .ok (s', _) => s'
    | .panic => s
  | .birth cfg h now order bi => (initialiseBirth cfg h now order bi s).st
  | .update now n f =>
    match update now s n f with
    | .ok (s', _) => s'
    | .panic => s
  | .publish _ => s
  | .command _ => s
  | .init h =>
    match init s h with
    | .ok s' => s'
    | .panic => s

def run {H} (s : St H) (ops : List (Op H)) : St H := ops.foldl step s

end Srad.SimpleMgr
