/-
C12 ∘ M13 — the tie between the payload records of the metric model (`Model/Metric.lean`:
`Payload`, `PMetric`, `PMeta`, `PSet`, `PVal`, `MVal`) and the value trees of the wire model
(`Model/Wire.lean`: `Val`, schema `sparkplug`).

* `toTree : Payload → Wire.Val` prints a payload record as the tree of its protobuf records, field
  by field in struct order with the tags of `sparkplug_payload.rs` (what `#[derive(Message)]`
  writes); `ofTree : Wire.Val → Option Payload` reads such a tree back into a record.
* `encW p = encodeMsg sparkplug "Payload" (toTree p)` — `Payload::encode_to_vec`;
  `decW valid b = decodeMsg valid sparkplug "Payload" b >>= ofTree` — `Payload::decode`.
* `inRange valid p : Bool` — what the Rust types say about a payload: `u32` / `u64` / `f32` / `f64`
  fields below 2^32 / 2^64, every `String` valid UTF-8 (`valid`), messages nested at most 100 levels
  below the payload (prost's recursion limit; only property sets and templates can nest), the
  encoding shorter than 2^64 bytes (it is a `Vec<u8>`). `pubMetricOK valid pm : Bool` says the
  same of a `PublishMetric` on the edge-side types (`upsOK` for its property set); the `Prop`
  forms are `InRange`, `PubMetric.InRange`, `EncFits`.

Data sets and templates. `Model/Metric.lean` carries a data set / template value as the prost bytes
of the sub-message (`MVal.dataset enc` / `MVal.template enc`). Nothing is kept abstract here: the
bytes are decoded with the M13 decoder for `DataSet` / `Template` into the sub-tree that is placed
under tag 17 / 18, and `ofTree` re-encodes the sub-tree. `inRange` therefore demands of `enc` that
it IS such an encoding: it decodes, the decoded tree is typed and canonical 98 levels deep (a
metric value sits two levels below the payload) and encodes to `enc` again (`subOK`).

Imports only other model files (linked into `srad_model`).
-/
import SradModel.Model.Metric
import SradModel.Model.Wire

namespace Srad.Metric
open Srad.Codec (Bytes)
open Srad.Wire (Val Recs Entry Ty Schema sparkplug lookupMsg findIn encRecs encodeMsg decodeMsg
  canonRecs)

/-! ### building blocks: one struct field = one segment of records -/

/-- an `Option<T>` field with tag `t`: no record or one -/
def optRec (t : Nat) : Option Val → Recs
  | none => []
  | some v => [(t, v)]

/-- a `Vec<T>` field with tag `t`: one record per element -/
def repRec (t : Nat) (vs : List Val) : Recs := vs.map fun v => (t, v)

/-- the entries of message `m` of the Sparkplug schema -/
def esOf (m : String) : List Entry := (lookupMsg sparkplug m).getD []

/-! ### records → tree -/

/-- the `property_value::Value` oneof: tag and value of a scalar member -/
def scalarTag : Scalar → Nat
  | .int _ => 3 | .long _ => 4 | .float _ => 5 | .double _ => 6 | .bool _ => 7 | .str _ => 8
  | .ext => 11

def scalarVal : Scalar → Val
  | .int n => .num n | .long n => .num n | .float b => .num b | .double b => .num b
  | .bool b => .bool b | .str s => .bytes s | .ext => .msg []

mutual
/-- the oneof segment of a `PropertyValue` -/
def pvalRecs : PVal → Recs
  | .none => []
  | .sc v => [(scalarTag v, scalarVal v)]
  | .set ks vs => [(9, .msg (repRec 1 (ks.map Val.bytes) ++ ppvsRecs vs))]
  | .sets l => [(10, .msg (psetsRecs l))]
/-- `PropertySet.values` (tag 2): one `PropertyValue` message per element -/
def ppvsRecs : List (Option Nat × Option Bool × PVal) → Recs
  | [] => []
  | (ty, nu, v) :: t =>
    (2, .msg (optRec 1 (ty.map Val.num) ++ (optRec 2 (nu.map Val.bool) ++ pvalRecs v))) :: ppvsRecs t
/-- `PropertySetList.propertyset` (tag 1): one `PropertySet` message per element -/
def psetsRecs : List (List Str × List (Option Nat × Option Bool × PVal)) → Recs
  | [] => []
  | (ks, vs) :: t => (1, .msg (repRec 1 (ks.map Val.bytes) ++ ppvsRecs vs)) :: psetsRecs t
end

/-- `payload::PropertyValue`: `type` (1), `is_null` (2), the value oneof (3..11) -/
def ppvRecs (pv : PPV) : Recs :=
  optRec 1 (pv.1.map Val.num) ++ (optRec 2 (pv.2.1.map Val.bool) ++ pvalRecs pv.2.2)

/-- `payload::PropertySet`: `keys` (1), `values` (2) -/
def psetRecs (ps : PSet) : Recs :=
  repRec 1 (ps.1.map Val.bytes) ++ repRec 2 (ps.2.map fun pv => Val.msg (ppvRecs pv))

/-- `payload::PropertySetList`: `propertyset` (1) -/
def pslRecs (l : List PSet) : Recs := repRec 1 (l.map fun ps => Val.msg (psetRecs ps))

/-- `payload::MetaData` -/
def metaRecs (m : PMeta) : Recs :=
  optRec 1 (m.isMultiPart.map Val.bool) ++ (optRec 2 (m.contentType.map Val.bytes) ++
  (optRec 3 (m.size.map Val.num) ++ (optRec 4 (m.seq.map Val.num) ++
  (optRec 5 (m.fileName.map Val.bytes) ++ (optRec 6 (m.fileType.map Val.bytes) ++
  (optRec 7 (m.md5.map Val.bytes) ++ optRec 8 (m.description.map Val.bytes)))))))

/-- the sub-tree a data set / template stands for: its bytes decoded as message `m` (UTF-8 is not
checked here but by `inRange`); bytes that are no encoding give the empty message -/
def subTree (m : String) (enc : Bytes) : Val :=
  match decodeMsg (fun _ => true) sparkplug m enc with
  | some v => v
  | none => .msg []

/-- the `metric::Value` oneof: tag of the member -/
def mvalTag : MVal → Nat
  | .int _ => 10 | .long _ => 11 | .float _ => 12 | .double _ => 13 | .bool _ => 14 | .str _ => 15
  | .bytes _ => 16 | .dataset _ => 17 | .template _ => 18 | .ext => 19

def mvalVal : MVal → Val
  | .int n => .num n | .long n => .num n | .float b => .num b | .double b => .num b
  | .bool b => .bool b | .str s => .bytes s | .bytes b => .bytes b
  | .dataset enc => subTree "DataSet" enc | .template enc => subTree "Template" enc
  | .ext => .msg []

/-- the oneof segment of a `Metric` -/
def mvalRecs : Option MVal → Recs
  | none => []
  | some v => [(mvalTag v, mvalVal v)]

/-- `payload::Metric`: `name` (1), `alias` (2), `timestamp` (3), `datatype` (4), `is_historical`
(5), `is_transient` (6), `is_null` (7), `metadata` (8), `properties` (9), the value oneof (10..19) -/
def metricRecs (m : PMetric) : Recs :=
  optRec 1 (m.name.map Val.bytes) ++ (optRec 2 (m.alias.map Val.num) ++
  (optRec 3 (m.timestamp.map Val.num) ++ (optRec 4 (m.datatype.map Val.num) ++
  (optRec 5 (m.isHistorical.map Val.bool) ++ (optRec 6 (m.isTransient.map Val.bool) ++
  (optRec 7 (m.isNull.map Val.bool) ++ (optRec 8 (m.metadata.map fun md => Val.msg (metaRecs md)) ++
  (optRec 9 (m.properties.map fun ps => Val.msg (psetRecs ps)) ++
  mvalRecs m.value))))))))

/-- `payload::Payload`: `timestamp` (1), `metrics` (2), `seq` (3), `uuid` (4), `body` (5) -/
def payloadRecs (p : Payload) : Recs :=
  optRec 1 (p.timestamp.map Val.num) ++
  (repRec 2 (p.metrics.map fun m => Val.msg (metricRecs m)) ++
  (optRec 3 (p.seq.map Val.num) ++ (optRec 4 (p.uuid.map Val.bytes) ++ optRec 5 (p.body.map Val.bytes))))

/-- the value tree of a payload record -/
def toTree (p : Payload) : Val := .msg (payloadRecs p)

/-! ### tree → records -/

def asNum : Val → Option Nat
  | .num n => some n | _ => none
def asBool : Val → Option Bool
  | .bool b => some b | _ => none
def asBytes : Val → Option (List UInt8)
  | .bytes b => some b | _ => none
def asMsg : Val → Option Recs
  | .msg rs => some rs | _ => none

def mapOpt {α β : Type} (f : α → Option β) : List α → Option (List β)
  | [] => some []
  | a :: t =>
    match f a with
    | none => none
    | some b =>
      match mapOpt f t with
      | none => none
      | some r => some (b :: r)

/-- the tag lies in `lo ..= hi` (the members of a oneof) -/
def inTags (lo hi : Nat) (r : Nat × Val) : Bool := decide (lo ≤ r.1) && decide (r.1 ≤ hi)

/-- the first record with tag `t` -/
def getOpt (rs : Recs) (t : Nat) : Option Val := (rs.find? fun r => r.1 == t).map (·.2)

/-- every value recorded under tag `t`, in order -/
def getRep (rs : Recs) (t : Nat) : List Val := (rs.filter fun r => r.1 == t).map (·.2)

def optVia {α : Type} (f : Val → Option α) : Option Val → Option (Option α)
  | none => some none
  | some v => (f v).map some

/-- an `Option<T>` field -/
def optField {α : Type} (rs : Recs) (t : Nat) (f : Val → Option α) : Option (Option α) :=
  optVia f (getOpt rs t)

/-- a `Vec<T>` field -/
def repField {α : Type} (rs : Recs) (t : Nat) (f : Val → Option α) : Option (List α) :=
  mapOpt f (getRep rs t)

/-- a nested message read by `g` -/
def msgWith {α : Type} (g : Recs → Option α) (v : Val) : Option α :=
  match v with
  | .msg rs => g rs
  | _ => none

def ofPSetWith (ofPV : Recs → Option PPV) (rs : Recs) : Option PSet :=
  match repField rs 1 asBytes, repField rs 2 (msgWith ofPV) with
  | some ks, some vs => some (ks, vs)
  | _, _ => none

def ofPSLWith (ofPS : Recs → Option PSet) (rs : Recs) : Option (List PSet) :=
  repField rs 1 (msgWith ofPS)

/-- the selected member of the `property_value::Value` oneof (tags 3..11) -/
def ofPValWith (ofPS : Recs → Option PSet) (ofPSL : Recs → Option (List PSet)) (rs : Recs) :
    Option PVal :=
  match rs.find? (inTags 3 11) with
  | none => some .none
  | some (3, .num n) => some (.sc (.int n))
  | some (4, .num n) => some (.sc (.long n))
  | some (5, .num n) => some (.sc (.float n))
  | some (6, .num n) => some (.sc (.double n))
  | some (7, .bool b) => some (.sc (.bool b))
  | some (8, .bytes s) => some (.sc (.str s))
  | some (9, .msg sub) => (ofPS sub).map fun ps => .set ps.1 ps.2
  | some (10, .msg sub) => (ofPSL sub).map .sets
  | some (11, .msg _) => some (.sc .ext)
  | _ => none

def ofPPVWith (ofPS : Recs → Option PSet) (ofPSL : Recs → Option (List PSet)) (rs : Recs) :
    Option PPV :=
  match optField rs 1 asNum, optField rs 2 asBool, ofPValWith ofPS ofPSL rs with
  | some ty, some nu, some v => some (ty, nu, v)
  | _, _, _ => none

/-- the readers of `PropertySet`, `PropertyValue`, `PropertySetList` trees with `d` more levels of
nested messages allowed below (prost stops there too) -/
def ofProps : Nat → (Recs → Option PSet) × (Recs → Option PPV) × (Recs → Option (List PSet))
  | 0 =>
    (ofPSetWith (fun _ => none), ofPPVWith (fun _ => none) (fun _ => none),
     ofPSLWith (fun _ => none))
  | d + 1 =>
    (ofPSetWith (ofProps d).2.1, ofPPVWith (ofProps d).1 (ofProps d).2.2, ofPSLWith (ofProps d).1)

def ofPSet (d : Nat) : Recs → Option PSet := (ofProps d).1
def ofPPV (d : Nat) : Recs → Option PPV := (ofProps d).2.1
def ofPSL (d : Nat) : Recs → Option (List PSet) := (ofProps d).2.2

def ofMeta (rs : Recs) : Option PMeta :=
  match optField rs 1 asBool, optField rs 2 asBytes, optField rs 3 asNum, optField rs 4 asNum,
    optField rs 5 asBytes, optField rs 6 asBytes, optField rs 7 asBytes, optField rs 8 asBytes with
  | some mp, some ct, some sz, some sq, some fn, some ft, some md5, some de =>
    some { isMultiPart := mp, contentType := ct, size := sz, seq := sq, fileName := fn,
           fileType := ft, md5 := md5, description := de }
  | _, _, _, _, _, _, _, _ => none

/-- the selected member of the `metric::Value` oneof (tags 10..19); a data set / template tree is
carried as its encoding -/
def ofMVal (rs : Recs) : Option (Option MVal) :=
  match rs.find? (inTags 10 19) with
  | none => some none
  | some (10, .num n) => some (some (.int n))
  | some (11, .num n) => some (some (.long n))
  | some (12, .num n) => some (some (.float n))
  | some (13, .num n) => some (some (.double n))
  | some (14, .bool b) => some (some (.bool b))
  | some (15, .bytes s) => some (some (.str s))
  | some (16, .bytes b) => some (some (.bytes b))
  | some (17, .msg sub) => some (some (.dataset (encRecs sparkplug (esOf "DataSet") sub)))
  | some (18, .msg sub) => some (some (.template (encRecs sparkplug (esOf "Template") sub)))
  | some (19, .msg _) => some (some .ext)
  | _ => none

/-- a `Metric` tree whose nested messages may have `d` more levels below them -/
def ofMetric (d : Nat) (rs : Recs) : Option PMetric :=
  match optField rs 1 asBytes, optField rs 2 asNum, optField rs 3 asNum, optField rs 4 asNum,
    optField rs 5 asBool, optField rs 6 asBool, optField rs 7 asBool,
    optField rs 8 (msgWith ofMeta), optField rs 9 (msgWith (ofPSet d)), ofMVal rs with
  | some nm, some al, some ts, some dt, some hi, some tr, some nu, some md, some pr, some v =>
    some { name := nm, alias := al, timestamp := ts, datatype := dt, isHistorical := hi,
           isTransient := tr, isNull := nu, metadata := md, properties := pr, value := v }
  | _, _, _, _, _, _, _, _, _, _ => none

def ofPayloadRecs (rs : Recs) : Option Payload :=
  match optField rs 1 asNum, repField rs 2 (msgWith (ofMetric 98)), optField rs 3 asNum,
    optField rs 4 asBytes, optField rs 5 asBytes with
  | some ts, some ms, some sq, some uu, some bo =>
    some { timestamp := ts, metrics := ms, seq := sq, uuid := uu, body := bo }
  | _, _, _, _, _ => none

/-- the payload record of a `Payload` tree (the generated struct read off its records) -/
def ofTree : Val → Option Payload
  | .msg rs => ofPayloadRecs rs
  | _ => none

/-! ### the concrete codec -/

/-- `Payload::encode_to_vec` -/
def encW (p : Payload) : Bytes := encodeMsg sparkplug "Payload" (toTree p)

/-- `Payload::decode`; `valid` is `String::from_utf8(..).is_ok()` -/
def decW (valid : Bytes → Bool) (b : Bytes) : Option Payload :=
  match decodeMsg valid sparkplug "Payload" b with
  | some v => ofTree v
  | none => none

/-! ### what the Rust types guarantee -/

def u32 (n : Nat) : Bool := decide (n < 4294967296)
def u64 (n : Nat) : Bool := decide (n < 18446744073709551616)

/-- typing of a scalar without the length bounds of `Wire.scalarTyped` (they follow from the
length of the whole encoding) -/
def scalarLoose (valid : Bytes → Bool) : Ty → Val → Bool
  | .uint32, .num n => u32 n
  | .uint64, .num n => u64 n
  | .float, .num n => u32 n
  | .double, .num n => u64 n
  | .bool, .bool _ => true
  | .string, .bytes b => valid b
  | .bytes, .bytes _ => true
  | _, _ => false

/-- `Wire.typedRecF` without the length bounds -/
def looseRecF (valid : Bytes → Bool) (s : Schema) (rec : List Entry → Recs → Bool)
    (es : List Entry) (r : Nat × Val) : Bool :=
  match findIn es 1 r.1 with
  | none => false
  | some (_, _, .message m) =>
    match r.2, lookupMsg s m with
    | .msg sub, some es' => rec es' sub
    | _, _ => false
  | some (_, _, ty) => scalarLoose valid ty r.2

def looseRecsF (valid : Bytes → Bool) (s : Schema) (rec : List Entry → Recs → Bool)
    (es : List Entry) (rs : Recs) : Bool :=
  rs.all (looseRecF valid s rec es)

/-- `Wire.typedRecs` without the length bounds: tags of the message, values of the tag's type,
numbers in range, strings valid, at most `d` levels of nested messages below -/
def looseRecs (valid : Bytes → Bool) (s : Schema) : Nat → List Entry → Recs → Bool
  | 0 => looseRecsF valid s (fun _ _ => false)
  | d + 1 => looseRecsF valid s (looseRecs valid s d)

/-- `enc` is the encoding of a `DataSet` / `Template` value (message `m`) that may sit where `d`
more levels are allowed below: it decodes, the tree is typed and canonical `d` levels deep, and
`enc` is what the encoder writes for it -/
def subOK (valid : Bytes → Bool) (d : Nat) (m : String) (enc : Bytes) : Bool :=
  match decodeMsg (fun _ => true) sparkplug m enc with
  | some (.msg sub) =>
    looseRecs valid sparkplug d (esOf m) sub && canonRecs sparkplug d (esOf m) sub &&
      (encRecs sparkplug (esOf m) sub == enc)
  | _ => false

def scalarOK (valid : Bytes → Bool) : Scalar → Bool
  | .int n => u32 n | .long n => u64 n | .float b => u32 b | .double b => u64 b
  | .bool _ => true | .str s => valid s | .ext => true

def psOKWith (valid : Bytes → Bool) (okPV : PPV → Bool) (ps : PSet) : Bool :=
  ps.1.all valid && ps.2.all okPV

def pslOKWith (okPS : PSet → Bool) (l : List PSet) : Bool := l.all okPS

/-- `okSub`: a nested message may follow at all (there is a level left) -/
def pvOKWith (valid : Bytes → Bool) (okPS : PSet → Bool) (okPSL : List PSet → Bool) (okSub : Bool)
    (pv : PPV) : Bool :=
  pv.1.all u32 &&
  match pv.2.2 with
  | .none => true
  | .sc .ext => okSub
  | .sc v => scalarOK valid v
  | .set ks vs => okSub && okPS (ks, vs)
  | .sets l => okSub && okPSL l

/-- range checks of `PropertySet`, `PropertyValue`, `PropertySetList` records that sit where `d`
more levels of nested messages are allowed -/
def okProps (valid : Bytes → Bool) : Nat → (PSet → Bool) × (PPV → Bool) × (List PSet → Bool)
  | 0 =>
    (psOKWith valid (fun _ => false), pvOKWith valid (fun _ => false) (fun _ => false) false,
     pslOKWith (fun _ => false))
  | d + 1 =>
    (psOKWith valid (okProps valid d).2.1,
     pvOKWith valid (okProps valid d).1 (okProps valid d).2.2 true,
     pslOKWith (okProps valid d).1)

/-- a `PropertySet` with `d` levels left: keys valid UTF-8, every value's `type` a `u32`, scalars
in range, nested sets / set lists within the remaining levels -/
def psOK (valid : Bytes → Bool) (d : Nat) : PSet → Bool := (okProps valid d).1
def pvOK (valid : Bytes → Bool) (d : Nat) : PPV → Bool := (okProps valid d).2.1
def pslOK (valid : Bytes → Bool) (d : Nat) : List PSet → Bool := (okProps valid d).2.2

def metaOK (valid : Bytes → Bool) (m : PMeta) : Bool :=
  m.contentType.all valid && m.size.all u64 && m.seq.all u64 && m.fileName.all valid &&
  m.fileType.all valid && m.md5.all valid && m.description.all valid

/-- a metric value in a `Metric` with `d + 1` levels left -/
def mvalOK (valid : Bytes → Bool) (d : Nat) : MVal → Bool
  | .int n => u32 n | .long n => u64 n | .float b => u32 b | .double b => u64 b
  | .bool _ => true | .str s => valid s | .bytes _ => true
  | .dataset enc => subOK valid d "DataSet" enc
  | .template enc => subOK valid d "Template" enc
  | .ext => true

/-- a `Metric` with `d + 1` levels left (in a payload: `d = 98`) -/
def metricOK (valid : Bytes → Bool) (d : Nat) (m : PMetric) : Bool :=
  m.name.all valid && m.alias.all u64 && m.timestamp.all u64 && m.datatype.all u32 &&
  m.metadata.all (metaOK valid) && m.properties.all (psOK valid d) && m.value.all (mvalOK valid d)

/-- what the Rust types guarantee for a `payload::Payload`: `u64` timestamp / seq / alias / size,
`u32` datatype and property type codes, `u32` / `u64` bit patterns for numbers, valid UTF-8 in
every `String`, property sets and templates nested within prost's 100 levels, data sets and
templates that are encodings of data sets and templates, and fewer than 2^64 encoded bytes -/
def inRange (valid : Bytes → Bool) (p : Payload) : Bool :=
  p.timestamp.all u64 && p.metrics.all (metricOK valid 98) && p.seq.all u64 && p.uuid.all valid &&
  decide ((encW p).length < 18446744073709551616)

/-! ### the same for what an edge-node task hands to a publish call -/

def emetaOK (valid : Bytes → Bool) (m : EMeta) : Bool :=
  m.description.all valid && m.contentType.all valid && m.size.all u64 && m.md5.all valid &&
  m.fileName.all valid && m.fileType.all valid

def idOK (valid : Bytes → Bool) : MetricId → Bool
  | .name n => valid n
  | .alias a => u64 a

def upsOKWith (valid : Bytes → Bool) (okV : UVal → Bool) (m : List UEnt) : Bool :=
  m.all fun e => valid e.1 && okV e.2.2

def uvOKWith (valid : Bytes → Bool) (okS : List UEnt → Bool) (okSL : List (List UEnt) → Bool)
    (okSub : Bool) : UVal → Bool
  | .null => true
  | .sc .ext => okSub
  | .sc v => scalarOK valid v
  | .set es => okSub && okS es
  | .sets l => okSub && okSL l

/-- range checks of the edge-side `PropertySet` (a hash map, entries in any order), of one of its
values and of a `PropertySetList`, placed where `d` more levels of nested messages are allowed
(the published forms are a `PropertySet`, a `PropertyValue`, a `PropertySetList` message) -/
def okUProps (valid : Bytes → Bool) :
    Nat → (List UEnt → Bool) × (UVal → Bool) × (List (List UEnt) → Bool)
  | 0 =>
    (upsOKWith valid (fun _ => false), uvOKWith valid (fun _ => false) (fun _ => false) false,
     fun l => l.all fun _ => false)
  | d + 1 =>
    (upsOKWith valid (okUProps valid d).2.1,
     uvOKWith valid (okUProps valid d).1 (okUProps valid d).2.2 true,
     fun l => l.all (okUProps valid d).1)

/-- an edge-side property set with `d` levels left: every key valid UTF-8, every scalar in range
(`u32` / `u64` bit patterns, valid strings), a value only where a level is left for its
`PropertyValue` message, nested sets / set lists within the remaining levels. With `d = 98` (a
metric's property set): sets nested in sets up to 49 deep. -/
def upsOK (valid : Bytes → Bool) (d : Nat) : List UEnt → Bool := (okUProps valid d).1
def uvOK (valid : Bytes → Bool) (d : Nat) : UVal → Bool := (okUProps valid d).2.1
def upslOK (valid : Bytes → Bool) (d : Nat) : List (List UEnt) → Bool := (okUProps valid d).2.2

/-- a `PublishMetric` as the Rust types have it: name valid UTF-8 / alias a `u64`, timestamp a
`u64`, the value in range (`mvalOK`), metadata strings valid and `size` a `u64`, and the property
set within range and depth (`upsOK`; its type codes are `DataType`s, always in range) -/
def pubMetricOK (valid : Bytes → Bool) (pm : PubMetric) : Bool :=
  idOK valid pm.id && u64 pm.timestamp && pm.value.all (mvalOK valid 98) &&
  pm.metadata.all (emetaOK valid) && pm.properties.all (upsOK valid 98)

/-! ### the predicates the theorems are stated with -/

/-- the payload is a value of the Rust type `payload::Payload` (see `inRange`) -/
def InRange (valid : Bytes → Bool) (p : Payload) : Prop := inRange valid p = true

instance (valid : Bytes → Bool) (p : Payload) : Decidable (InRange valid p) := by
  unfold InRange; exact inferInstance

/-- the publish metric is a value of the Rust type `PublishMetric` (see `pubMetricOK`) -/
def PubMetric.InRange (valid : Bytes → Bool) (pm : PubMetric) : Prop := pubMetricOK valid pm = true

instance (valid : Bytes → Bool) (pm : PubMetric) : Decidable (pm.InRange valid) := by
  unfold PubMetric.InRange; exact inferInstance

/-- the encoded payload fits a `Vec<u8>` -/
def EncFits (p : Payload) : Prop := (encW p).length < 18446744073709551616

instance (p : Payload) : Decidable (EncFits p) :=
  decidable_of_iff (decide ((encW p).length < 18446744073709551616) = true)
    (by unfold EncFits; exact decide_eq_true_iff)

end Srad.Metric
