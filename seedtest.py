#!/usr/bin/env python3
"""seedtest.py <seed-id> [<property> ...]: apply /verif/seeded/<seed-id>/patch.diff to /repo, run the quick
check of the property (default: the one in meta.json), record what it reported, undo the patch."""
import json, os, subprocess, sys, time
sid = sys.argv[1]
d = os.path.join("/verif/seeded", sid)
meta = json.load(open(os.path.join(d, "meta.json")))
props = sys.argv[2:] or [meta["property"]]
assert subprocess.run(["git", "-C", "/repo", "status", "--porcelain"], capture_output=True, text=True).stdout.strip() == "", "/repo not clean"
r = subprocess.run(["git", "-C", "/repo", "apply", os.path.join(d, "patch.diff")], capture_output=True, text=True)
if r.returncode != 0:
    print("PATCH DOES NOT APPLY", r.stderr); sys.exit(2)
results = {}
try:
    for p in props:
        t = time.time()
        c = subprocess.run(["./check", p, "--tier", "quick"], cwd="/verif", capture_output=True, text=True)
        lines = [l for l in c.stdout.splitlines() if l.startswith(("VIOLATION", "OK", "KNOWN-FINDING"))]
        replays = []
        for l in lines:
            if l.startswith("VIOLATION"):
                rp = l.split("replay=")[1].split()[0]
                try:
                    j = json.load(open(os.path.join("/verif", rp)))
                    replays.append({"line": l, "what": j.get("what") or j.get("broken"), "oracle": (j.get("oracle") or {}).get("clause"),
                                    "feature": (j.get("oracle") or {}).get("feature"), "first_disagreement": j.get("first_disagreement")})
                except Exception as e:
                    replays.append({"line": l})
        results[p] = {"exit": c.returncode, "wall_s": round(time.time() - t, 1), "reports": replays or lines}
        print(p, "exit", c.returncode, [x.get("line", x) if isinstance(x, dict) else x for x in (replays or lines)][:3])
finally:
    subprocess.run(["git", "-C", "/repo", "checkout", "--", "."])
    subprocess.run(["git", "-C", "/repo", "clean", "-fdq"])  # files a patch added (ignored build output stays)
    # tables regenerated from the seeded code must not stay behind
    subprocess.run(["git", "-C", "/verif", "checkout", "--", "lean/SradModel/Generated", "evidence"])
meta.setdefault("detection", {}).update(results)
meta["detected"] = any(v["exit"] == 1 for v in meta["detection"].values())
json.dump(meta, open(os.path.join(d, "meta.json"), "w"), indent=1)
