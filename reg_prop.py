#!/usr/bin/env python3
"""reg_prop.py Cxx <namespace> <PropsModule>[,<PropsModule>...] : (re)build the props_index entry from the theorem names in the Props files"""
import json, re, sys, os
pid, ns, mods = sys.argv[1], sys.argv[2], sys.argv[3].split(",")
names = []
for m in mods:
    for line in open(os.path.join("/verif/lean/SradModel/Props", m + ".lean")):
        mm = re.match(r"theorem\s+(C\d+_\w+)", line)
        if mm:
            names.append(ns + "." + mm.group(1))
pi = json.load(open("/verif/lean/props_index.json"))
e = pi.get(pid, {"hypotheses": [], "partial": []})
e["theorems"] = names
e["modules"] = mods
pi[pid] = e
json.dump(pi, open("/verif/lean/props_index.json", "w"), indent=1)
print(pid, len(names), "theorems")
