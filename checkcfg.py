# Property table for ./check: which harness components exercise the property, which finite
# tables are regenerated from the compiled source (T-table), stated assumptions.
PROPS = {
    "C09": {
        "components": ["reseq"],
        "tables": [],
        "explanation": "Theorems over the model of Resequencer<T> for all start values, lengths <= 256, permutations and call sequences; model tied to srad-app/src/resequencer.rs by differential execution of the public API (exhaustive small spaces + random).",
        "assumptions": [
            "BTreeMap<u8,T> behaves as an ordered finite map (first_key_value/pop_first = least key)",
            "the model (lean/SradModel/Model/Reseq.lean) reads resequencer.rs correctly; checked by correspondence on the explored cases only",
        ],
    },
    "C10": {
        "components": ["codec"],
        "tables": ["KindTable"],
        "explanation": "Round-trip and encoded-form theorems for all 13 scalar types, all array codecs (every length, every bit pattern) and datatype-directed decoding over the codec model; the try_from_metric_value decision table is regenerated from the compiled crate on every run and closed by `decide +kernel`; model tied to value.rs by differential execution (exhaustive 8/16-bit values, all boolean arrays up to a length, every array length 0..=64, random).",
        "assumptions": [
            "Rust to_le_bytes/from_le_bytes/`as` casts are as modelled (bit patterns); String::from_utf8 = Lean's String.fromUTF8? (compared on every generated string)",
            "the four wrapper kinds share the modelled variant constructors; tied by executing all four",
        ],
    },
    "C19": {
        "components": ["codec"],
        "tables": [],
        "explanation": "Totality (never the explicit panic outcome), allocation bound and length-exactness theorems for every array decoder and for datatype-directed decoding, for all byte strings; model tied to value.rs by exhaustive short byte strings into all 13 decoders plus structured/mutated inputs, each run under catch_unwind with the Vec capacity checked.",
        "assumptions": [
            "Vec::with_capacity(n) reserves n elements (modelled as the `alloc` field)",
            "property sets, template values, command payloads and STATE JSON decoders are covered by the models M3/M4/M6/M7 as they are added (see DESIGN.md)",
        ],
    },
}
