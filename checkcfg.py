# Property table for ./check (data in checkcfg.json): which harness components exercise the
# property, which finite tables are regenerated from the compiled source (T-table), assumptions.
import json, os
PROPS = json.load(open(os.path.join(os.path.dirname(os.path.abspath(__file__)), "checkcfg.json")))
