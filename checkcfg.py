# Property table for ./check: which harness components exercise the property, which finite
# tables are regenerated from the compiled source (T-table), stated assumptions.
PROPS = {
    "C09": {
        "components": ["reseq"],
        "tables": [],
        "explanation": "Theorems over the model of Resequencer<T> for all start values, lengths <= 256, permutations and call sequences; model tied to srad-app/src/resequencer.rs by differential execution of the public API (exhaustive small spaces + random).",
        "assumptions": [
            "BTreeMap<u8,T> behaves as an ordered finite map (first_key_value/pop_first = least key)",
            "the model (lean/SradModel/Model/Reseq.lean) reads resequencer.rs correctly; checked by correspondence on the explored cases only",
        ],
    },
}
