#!/bin/bash
# soak.sh [seeds...]: thorough tier of every check on the unchanged tree, for each seed; summary on stdout.
# Meant for `vp run -- ./soak.sh 1 2 3` (a snapshot builds its own harness and Lean project first).
./check --setup || exit 1
for seed in "${@:-1}"; do
  for p in C01 C02 C03 C04 C05 C06 C07 C08 C09 C10 C11 C12 C13 C14 C15 C16 C17 C18 C19 C20 M13 M14 M15 M16 M17; do
    VERIF_SEED=$seed ./check $p --tier thorough > soak.$p.$seed.out 2> soak.$p.$seed.err
    echo "$p seed=$seed rc=$? $(grep -c VIOLATION soak.$p.$seed.out) violation line(s): $(grep VIOLATION soak.$p.$seed.out | head -3 | tr '\n' ' ')"
  done
done
